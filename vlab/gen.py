"""Seeded DAG-spec generator and instance builder.

A *spec* is pure data: {'tasks': {name: {'type', 'one', 'many', 'named', 'p'}}}
in dependency-first insertion order.  Dependency leaves inside the parameter
trees are written {'$t': name}.  Every reference model reads the spec; none
uses labtech's own dependency search.
"""
import random

SHAPES = ('chain', 'diamond', 'fanin', 'fanout', 'wide', 'layered', 'reqsub', 'mix')
DEFAULT_TYPES = (('NA', 3), ('_ple', 1), ('N__U_', 1), ('NR', 1), ('NB', 2), ('NC', 2), ('ND', 1), ('NN', 2), ('NJ', 1), ('NF', 1), ('NP', 1), ('NM', 1), ('NK', 1), ('NT', 1), ('NE', 1), ('NZ', 1))


def leaf(name):
    return {'$t': name}


def is_leaf(x):
    return isinstance(x, dict) and '$t' in x


def tree_leaves(tree, out=None):
    """Ordered dependency names (with repeats) in a parameter tree."""
    if out is None:
        out = []
    if is_leaf(tree):
        out.append(tree['$t'])
    elif isinstance(tree, (list, tuple)):
        for x in tree:
            tree_leaves(x, out)
    elif isinstance(tree, dict):
        for x in tree.values():
            tree_leaves(x, out)
    return out


def flat_deps(spec, name):
    t = spec['tasks'][name]
    out = []
    for f in ('one', 'many', 'named', 'p'):
        tree_leaves(t.get(f), out)
    return out


def closure(spec, names):
    seen = []
    stack = list(names)
    s = set()
    while stack:
        n = stack.pop()
        if n in s:
            continue
        s.add(n)
        seen.append(n)
        stack.extend(flat_deps(spec, n))
    return s


def _pick_type(rng, types):
    names = [t for t, _ in types]
    weights = [w for _, w in types]
    return rng.choices(names, weights)[0]


def _place(rng, deps, depth):
    """Distribute dependency names over one / many / named with nesting."""
    one = None
    many = []
    named = None
    deps = list(deps)
    if deps and rng.random() < 0.5:
        one = leaf(deps.pop(0))
    for d in deps:
        where = rng.random()
        if where < 0.55:
            node = leaf(d)
            for _ in range(rng.randrange(0, depth)):
                node = [node] if rng.random() < 0.7 else [rng.randrange(5), node]
            many.append(node)
        else:
            if named is None:
                named = {}
            node = leaf(d)
            for i in range(rng.randrange(0, depth)):
                node = {f'k{i}': node} if rng.random() < 0.5 else [node]
            key = f'n{len(named)}'
            named[key] = node
    if rng.random() < 0.15 and many:
        many.append(rng.choice(['noise', 7, None]))
    return one, many, named


def gen_spec(rng, *, shape=None, nmax=10, types=DEFAULT_TYPES, depth=3, dup_ref=0.15):
    shape = shape or rng.choice(SHAPES)
    edges = {}   # name -> list of dep names (ordered, may repeat)
    if shape == 'chain':
        n = rng.randrange(2, min(nmax, 7) + 1)
        for i in range(n):
            edges[f't{i}'] = [f't{i-1}'] if i else []
    elif shape == 'diamond':
        k = rng.randrange(1, 3)
        edges['t0'] = []
        idx = 1
        base = 't0'
        for _ in range(k):
            w = rng.randrange(2, 4)
            mids = []
            for _ in range(w):
                edges[f't{idx}'] = [base]
                mids.append(f't{idx}')
                idx += 1
            edges[f't{idx}'] = mids
            base = f't{idx}'
            idx += 1
    elif shape == 'fanin':
        k = rng.randrange(2, nmax)
        for i in range(k):
            edges[f't{i}'] = []
        edges[f't{k}'] = [f't{i}' for i in range(k)]
    elif shape == 'fanout':
        k = rng.randrange(2, nmax)
        edges['t0'] = []
        for i in range(1, k + 1):
            edges[f't{i}'] = ['t0']
    elif shape == 'wide':
        n = rng.randrange(6, max(7, nmax + 6))
        for i in range(n):
            edges[f't{i}'] = ([f't{rng.randrange(i)}'] if i and rng.random() < 0.15 else [])
    else:  # layered / reqsub / mix
        n = rng.randrange(3, nmax + 1)
        pe = rng.choice([0.2, 0.35, 0.5])
        for i in range(n):
            edges[f't{i}'] = [f't{j}' for j in range(i) if rng.random() < pe][-4:]
    # duplicate references to the same dependency inside one task
    for name, deps in edges.items():
        if deps and rng.random() < dup_ref:
            deps.append(rng.choice(deps))
    tasks = {}
    for name, deps in edges.items():
        one, many, named = _place(rng, deps, depth)
        tasks[name] = {'type': _pick_type(rng, types), 'one': one, 'many': many, 'named': named,
                       'p': rng.choice([None, 0, 1, 'x', [1, 2], {'a': 1}])}
        if tasks[name]['type'] == 'NR' and rng.random() < 0.8:
            tasks[name]['p'] = rng.choice(['x', 'yz'])
    spec = {'shape': shape, 'tasks': tasks}
    spec['requested'] = gen_requested(rng, spec, shape)
    return spec


def dependents_of(spec):
    out = {n: set() for n in spec['tasks']}
    for n in spec['tasks']:
        for d in flat_deps(spec, n):
            out[d].add(n)
    return out


def gen_requested(rng, spec, shape=None):
    names = list(spec['tasks'])
    dependents = dependents_of(spec)
    sinks = [n for n in names if not dependents[n]]
    if shape == 'reqsub':
        req = rng.sample(names, rng.randrange(1, len(names) + 1))
    else:
        req = list(sinks)
        if rng.random() < 0.5:
            req = rng.sample(sinks, rng.randrange(1, len(sinks) + 1))
        extra = [n for n in names if n not in req]
        if extra and rng.random() < 0.5:
            req += rng.sample(extra, rng.randrange(1, min(3, len(extra)) + 1))
    rng.shuffle(req)
    if rng.random() < 0.25:
        req.append(rng.choice(req))   # repeated request
    return req


class Built:
    """Task instances materialised from a spec."""

    def __init__(self, spec, *, rng=None, fresh_prob=0.0, types=None, cap=250):
        from . import tasks_core
        self.spec = spec
        self.types = types or tasks_core.TYPES
        self.canon = {}
        self.instances = []          # every instance created, (name, obj)
        self._rng = rng
        self._fresh = fresh_prob
        self._cap = cap

    def inst(self, name, fresh=False):
        if not fresh and name in self.canon:
            return self.canon[name]
        t = self.spec['tasks'][name]

        def conv(tree):
            if is_leaf(tree):
                fr = (self._rng is not None and len(self.instances) < self._cap
                      and self._rng.random() < self._fresh)
                return self.inst(tree['$t'], fresh=fr)
            if isinstance(tree, list):
                return [conv(x) for x in tree]
            if isinstance(tree, dict):
                return {k: conv(x) for k, x in tree.items()}
            return tree
        pval = conv(t['p'])
        if fresh and t['type'] == 'NR' and isinstance(pval, str) and self._rng is not None:
            # a duplicate of this task written differently: equal to the canonical instance once post_init has run
            pval = self._rng.choice([pval.upper(), f' {pval} ', pval.title() + '  ', '\t' + pval])
        obj = self.types[t['type']](name=name, one=conv(t['one']), many=conv(t['many']),
                                    named=conv(t['named']), p=pval)
        self.instances.append((name, obj))
        if name not in self.canon:
            self.canon[name] = obj
        return obj

    def requested(self, names=None):
        out = []
        for n in (names if names is not None else self.spec['requested']):
            fr = (self._rng is not None and len(self.instances) < self._cap
                  and self._rng.random() < self._fresh * 0.5)
            out.append(self.inst(n, fresh=fr))
        return out


def spec_signature(spec):
    """Canonical shape hash input: structure without names' numeric identity."""
    import json
    return json.dumps({n: [t['type'], flat_deps(spec, n)] for n, t in spec['tasks'].items()},
                      sort_keys=True) + '|' + ','.join(spec.get('requested', []))
