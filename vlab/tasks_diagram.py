"""Task types for the diagram property (C20) with the harness's own table of
what each class block must list."""
from typing import Any

import labtech


@labtech.task
class DF:
    n: int = 0

    def run(self) -> int:
        return self.n


@labtech.task
class DC:
    v: float = 0.0
    leaf: Any = None

    def run(self):
        return self.v


@labtech.task
class DB:
    label: str = ''
    child: Any = None
    kids: tuple = ()

    def run(self) -> str:
        return self.label


@labtech.task
class DA:
    x: int = 0
    child: Any = None
    kids: list = ()
    byname: dict = None

    def run(self) -> list[int]:
        return [self.x]


@labtech.task
class DD:
    a: Any = None
    b: Any = None

    def run(self) -> dict:
        return {}


@labtech.task
class DE:
    kids: Any = ()
    flag: bool = False

    def run(self) -> float:
        return 0.0


@labtech.task(cache=None)
class DG:
    """cache=None type with children (all NullCache keys are equal)."""
    tag: str = ''
    child: Any = None
    kids: Any = ()

    def run(self) -> str:
        return self.tag


@labtech.task(cache=None, max_parallel=1)
class DH:
    n: int = 0
    leaf: Any = None

    def run(self) -> int:
        return self.n


@labtech.task
class DZ:
    """Container-like task: defines __len__, so instances with n == 0 are falsy."""
    n: int = 0
    leaf: Any = None

    def __len__(self):
        return self.n

    def run(self) -> int:
        return self.n


DTYPES = {c.__name__: c for c in (DA, DB, DC, DD, DE, DF, DG, DH, DZ)}
# harness-owned expectation of each class block: fields (type string, name) in order, run line suffix
EXPECT = {
    'DF': ([('int', 'n')], ' int'),
    'DC': ([('float', 'v'), ('Any', 'leaf')], ''),
    'DB': ([('str', 'label'), ('Any', 'child'), ('tuple', 'kids')], ' str'),
    'DA': ([('int', 'x'), ('Any', 'child'), ('list', 'kids'), ('dict', 'byname')], ' list[int]'),
    'DD': ([('Any', 'a'), ('Any', 'b')], ' dict'),
    'DE': ([('Any', 'kids'), ('bool', 'flag')], ' float'),
    'DG': ([('str', 'tag'), ('Any', 'child'), ('Any', 'kids')], ' str'),
    'DH': ([('int', 'n'), ('Any', 'leaf')], ' int'),
    'DZ': ([('int', 'n'), ('Any', 'leaf')], ' int'),
}
# which fields may hold tasks
TASK_FIELDS = {'DF': [], 'DC': ['leaf'], 'DB': ['child', 'kids'], 'DA': ['child', 'kids', 'byname'],
               'DD': ['a', 'b'], 'DE': ['kids'], 'DG': ['child', 'kids'], 'DH': ['leaf'], 'DZ': ['leaf']}
