"""Reference models (all read the generator's spec, never labtech)."""
from .body import combine, ctx_digest
from .gen import flat_deps
from .tasks_core import MAX_PARALLEL, UNCACHED, filter_ctx


def dedup(seq):
    out = []
    for x in seq:
        if x not in out:
            out.append(x)
    return out


def cacheable(spec, name):
    return spec['tasks'][name]['type'] not in UNCACHED


def ref_value(spec, name, ctx, gen_of, memo=None, stored=None):
    """Sequential dependency-first evaluation.  gen_of(name) -> generation at
    which the task's value was (or is being) computed; stored: name -> value
    already in the cache (used instead of recomputing)."""
    if memo is None:
        memo = {}
    if name in memo:
        return memo[name]
    if stored is not None and name in stored:
        memo[name] = stored[name]
        return memo[name]
    t = spec['tasks'][name]
    deps = [(d, ref_value(spec, d, ctx, gen_of, memo, stored)) for d in flat_deps(spec, name)]
    fctx = filter_ctx(t['type'], name, ctx)
    memo[name] = combine(t['type'], name, t['p'], deps, ctx_digest(fctx), gen_of(name))
    return memo[name]


def plan(spec, requested, cached, bust=False):
    """(executed, loaded): visit requested; cached and not bust -> load, do not
    descend; else execute and descend."""
    executed, loaded = set(), set()
    stack = list(requested)
    while stack:
        n = stack.pop()
        if n in executed or n in loaded:
            continue
        if (not bust) and n in cached:
            loaded.add(n)
        else:
            executed.add(n)
            stack.extend(flat_deps(spec, n))
    return executed, loaded


def taint(spec, failing, universe):
    """Tasks (within universe = executed set) that fail themselves or read a
    failed task's result (transitively)."""
    tainted = set()
    memo = {}

    def rec(n):
        if n in memo:
            return memo[n]
        memo[n] = False
        bad = n in failing
        for d in flat_deps(spec, n):
            if d in universe and rec(d):
                bad = True
        memo[n] = bad
        return bad
    for n in universe:
        if rec(n):
            tainted.add(n)
    return tainted


def max_parallel(spec, name):
    return MAX_PARALLEL[spec['tasks'][name]['type']]
