"""Runs vlab/mainscript.py (task types defined in __main__) as a separate user program and returns its report."""
import json
import os
import shutil
import subprocess
import sys
import tempfile


def run_mainscript(backend, seed, hashseed=None, timeout=240):
    """-> ('ok', report) | ('timeout', None) | ('failed', stderr tail)"""
    d = tempfile.mkdtemp(prefix='vlab-ms-')
    try:
        script = os.path.join(os.path.dirname(os.path.abspath(__file__)), 'mainscript.py')
        outp = os.path.join(d, 'report.json')
        errp = os.path.join(d, 'stderr.txt')
        env = dict(os.environ, VLAB_MAINSCRIPT_WORK=d)
        if hashseed is not None:
            env['PYTHONHASHSEED'] = str(hashseed)
        try:
            with open(errp, 'wb') as ef:     # never a pipe: leftover manager processes would keep it open
                p = subprocess.Popen([sys.executable, script, d, backend, str(seed), outp], env=env, cwd=d,
                                     stdout=subprocess.DEVNULL, stderr=ef, stdin=subprocess.DEVNULL, start_new_session=True)
                try:
                    p.wait(timeout=timeout)
                finally:
                    try:
                        os.killpg(p.pid, 9)
                    except OSError:
                        pass
        except subprocess.TimeoutExpired:
            return 'timeout', None
        if not os.path.exists(outp):
            return 'failed', open(errp, errors='replace').read()[-800:]
        with open(outp) as f:
            return 'ok', json.load(f)
    finally:
        shutil.rmtree(d, ignore_errors=True)
