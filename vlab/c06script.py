"""Stand-alone user script for C06: task types defined in the running script (module __main__, the README way of
using labtech), first run under one backend, second run under another with fresh task objects.
usage: python c06script.py <storage dir> <backend1> <backend2> <report.json>"""
import json
import os
import sys
from typing import Any

import labtech

COUNTER = os.environ.get('VLAB_C06_COUNTER', '/dev/null')


def _count(tag):
    fd = os.open(COUNTER, os.O_WRONLY | os.O_APPEND | os.O_CREAT)
    os.write(fd, (tag + '\n').encode())
    os.close(fd)


@labtech.task
class Leaf:
    x: int
    scale: float = 1.0

    def run(self):
        _count(f'Leaf{self.x}')
        return ('leaf', self.x, self.x * self.scale)


@labtech.task
class Sum:
    leaves: list
    opts: Any = None

    def post_init(self):
        object.__setattr__(self, 'n', len(self.leaves))

    def run(self):
        _count('Sum')
        return ('sum', sum(leaf.result[2] for leaf in self.leaves), self.n)


def build():
    return [Sum(leaves=[Leaf(1), Leaf(2, scale=2.0)], opts={'b': 1, 'a': [1, 2]}), Leaf(3), Sum(leaves=[Leaf(3)])]


def meta(t):
    m = t.result_meta
    return None if m is None else [m.start.isoformat() if m.start else None,
                                   m.duration.total_seconds() if m.duration is not None else None]


def main():
    store, b1, b2, outp = sys.argv[1:5]
    labtech.logger.handlers = []
    rep = {'b1': b1, 'b2': b2}
    t1 = build()
    lab1 = labtech.Lab(storage=store, runner_backend=b1, max_workers=2)
    r1 = lab1.run_tasks(t1, disable_progress=True, disable_top=True)
    rep['n1'] = len(open(COUNTER).read().split())
    rep['values1'] = [list(r1[t]) if t in r1 else None for t in t1]
    rep['metas1'] = [meta(t) for t in t1]
    rep['cached_after_first'] = [lab1.is_cached(t) for t in build()]
    t2 = build()
    lab2 = labtech.Lab(storage=store, runner_backend=b2, max_workers=2)
    rep['listed'] = len(lab2.cached_tasks([Leaf, Sum]))
    r2 = lab2.run_tasks(t2, disable_progress=True, disable_top=True)
    rep['n2'] = len(open(COUNTER).read().split())
    rep['values2'] = [list(r2[t]) if t in r2 else None for t in t2]
    rep['metas2'] = [meta(t) for t in t2]
    # third run: the task objects come from cached_tasks() (rebuilt from the stored metadata) - they must hit too
    lab3 = labtech.Lab(storage=store, runner_backend=b2, max_workers=2)
    listed = lab3.cached_tasks([Leaf, Sum])
    originals = build()
    pick = [next((x for x in listed if x == o), None) for o in originals]
    rep['listed_matches'] = [x is not None for x in pick]
    if all(x is not None for x in pick):
        r3 = lab3.run_tasks(pick, disable_progress=True, disable_top=True)
        rep['n3'] = len(open(COUNTER).read().split())
        rep['values3'] = [list(r3[t]) if t in r3 else None for t in pick]
        rep['metas3'] = [meta(t) for t in pick]
        rep['keys3'] = [[t.cache_key, o.cache_key] for t, o in zip(pick, originals)]
    with open(outp, 'w') as f:
        json.dump(rep, f)


if __name__ == '__main__':
    main()
    os._exit(0)
