"""Shard entry point: `python -m vlab.shard PROP TIER SEED SHARD NSHARDS BUDGET OUTFILE [REPLAY]`.

Runs in its own session with PYTHONPATH=<repo>:/verif and its own
PYTHONHASHSEED; writes its report to a file (never a pipe)."""
import faulthandler
import importlib
import json
import os
import signal
import sys
import traceback


def main(argv):
    prop, tier, seed, shard, nshards, budget, outfile = argv[:7]
    replay = argv[7] if len(argv) > 7 else None
    faulthandler.register(signal.SIGUSR1, all_threads=True)
    from vlab.report import Report
    rep = Report(prop, tier, int(seed), int(shard), int(nshards), float(budget))
    rep.checkpoint_path = outfile + '.ckpt'
    crashed = None
    try:
        mod = importlib.import_module(f'vlab.props.{prop.lower()}')
        if replay:
            with open(replay) as f:
                mod.replay(rep, json.load(f))
        else:
            mod.run_shard(rep)
    except BaseException:   # noqa
        crashed = traceback.format_exc()
        rep.inconclusive('shard crashed', crashed[-3000:])
    out = rep.dump()
    out['crashed'] = crashed
    out['hashseed'] = os.environ.get('PYTHONHASHSEED')
    try:
        import labtech
        out['labtech_file'] = labtech.__file__
    except Exception:
        out['labtech_file'] = None
    tmp = outfile + '.tmp'
    with open(tmp, 'w') as f:
        json.dump(out, f, default=repr)
    os.rename(tmp, outfile)
    try:
        from vlab.engine import reap_children
        reap_children()
    except Exception:
        pass


if __name__ == '__main__':
    main(sys.argv[1:])
    sys.stdout.flush()
    os._exit(0)
