"""Harness-owned Cache / Storage implementations installed through labtech's
public extension points (docs/caching.md)."""
import json
import io
import os
from pathlib import Path

from labtech.cache import BaseCache
from labtech.storage import FsspecStorage, LocalStorage

from .events import emit


class JsonCache(BaseCache):
    """Second cache format sharing a storage with PickleCache."""
    KEY_PREFIX = 'json__'
    RESULT_FILENAME = 'data.json'

    def save_result(self, storage, task, result):
        data_file = storage.file_handle(task.cache_key, self.RESULT_FILENAME, mode='w')
        with data_file:
            json.dump(_to_json(result), data_file)

    def load_result(self, storage, task):
        with storage.file_handle(task.cache_key, self.RESULT_FILENAME, mode='r') as data_file:
            return _from_json(json.load(data_file))


def _to_json(v):
    if isinstance(v, tuple):
        return {'__tuple': [_to_json(x) for x in v]}
    if isinstance(v, list):
        return [_to_json(x) for x in v]
    if isinstance(v, dict):
        return {'__dict': [[k, _to_json(x)] for k, x in v.items()]}
    if isinstance(v, bytes):
        return {'__bytes': v.hex()}
    if v is None or isinstance(v, (str, int, float, bool)):
        return v
    raise TypeError(f'vlab JsonCache: cannot encode {type(v).__name__}')


def _from_json(v):
    if isinstance(v, list):
        return [_from_json(x) for x in v]
    if isinstance(v, dict):
        if '__tuple' in v:
            return tuple(_from_json(x) for x in v['__tuple'])
        if '__dict' in v:
            return {k: _from_json(x) for k, x in v['__dict']}
        if '__bytes' in v:
            return bytes.fromhex(v['__bytes'])
    return v


class RecLocalStorage(LocalStorage):
    """LocalStorage that records every operation in the event log."""

    def find_keys(self):
        out = super().find_keys()
        emit('st', op='find_keys', n=len(out))
        return out

    def exists(self, key):
        out = super().exists(key)
        emit('st', op='exists', key=key, out=out)
        return out

    def file_handle(self, key, filename, *, mode='r'):
        emit('st', op='open', key=key, file=filename, mode=mode)
        return super().file_handle(key, filename, mode=mode)

    def delete(self, key):
        emit('st', op='delete', key=key)
        return super().delete(key)


class LocalFsspecStorage(FsspecStorage):
    """The reference implementation from the comment in labtech/storage.py."""

    def __init__(self, storage_dir, **kwargs):
        if isinstance(storage_dir, str):
            storage_dir = Path(storage_dir)
        super().__init__(storage_dir.resolve())

    def fs_constructor(self):
        from fsspec.implementations.local import LocalFileSystem
        return LocalFileSystem()


class MemoryFsspecStorage(FsspecStorage):
    """fsspec's in-memory file system (per process; serial backend only)."""

    def fs_constructor(self):
        from fsspec.implementations.memory import MemoryFileSystem
        return MemoryFileSystem()


class _UploadBytes(io.BytesIO):
    def __init__(self, path):
        super().__init__()
        self._path = path

    def close(self):
        if not self.closed:
            data = self.getvalue()
            self._path.parent.mkdir(parents=True, exist_ok=True)
            with open(self._path, 'wb') as f:
                f.write(data)
        super().close()


class _UploadText(io.StringIO):
    def __init__(self, path):
        super().__init__()
        self._path = path

    def close(self):
        if not self.closed:
            data = self.getvalue()
            self._path.parent.mkdir(parents=True, exist_ok=True)
            with open(self._path, 'w') as f:
                f.write(data)
        super().close()


class UploadOnCloseStorage(LocalStorage):
    """A storage provider of the object-store kind: what is written to a handle only becomes a stored file when the
    handle is CLOSED (whenever and by whomever - also by the garbage collector)."""

    def file_handle(self, key, filename, *, mode='r'):
        if 'w' in mode and '+' not in mode:
            path = self._key_to_path(key) / filename
            return _UploadBytes(path) if 'b' in mode else _UploadText(path)
        return super().file_handle(key, filename, mode=mode)


def make_storage(kind, path):
    if kind == 'upload':
        return UploadOnCloseStorage(path)
    if kind == 'local':
        return LocalStorage(path)
    if kind == 'rec':
        return RecLocalStorage(path)
    if kind == 'faulty':
        return FaultyStorage(path)
    if kind == 'pathstr':
        return str(path)
    if kind == 'pathobj':
        return Path(path)
    if kind == 'relstr':        # relative to the working directory at the moment the Lab is created (README style)
        return os.path.relpath(str(path))
    if kind == 'relpath':
        return Path(os.path.relpath(str(path)))
    if kind == 'fsspec-local':
        return LocalFsspecStorage(str(path))
    if kind == 'fsspec-memory':
        return MemoryFsspecStorage('/vlab-mem/' + os.path.basename(str(path)))
    if kind == 'null':
        return None
    raise ValueError(kind)


# ---------------------------------------------------------------- fault injection (C12/C13/C14)
def _inject_cfg(name):
    from .body import load_plan, plan_entry
    try:
        return plan_entry(load_plan(), name).get('inject')
    except Exception:
        return None


def _armed_save(self, base_save, storage, task, task_result):
    from . import inject
    cfg = _inject_cfg(task.name)
    if not cfg:
        return base_save(storage, task, task_result)

    def on_fire(site):
        emit('inj-fire', name=task.name, site=site, action=cfg.get('action'))
    inj = inject.Injector(k=cfg.get('k'), action=cfg.get('action', 'raise'), on_fire=on_fire)
    emit('save-begin', name=task.name)
    inj.start()
    try:
        return base_save(storage, task, task_result)
    finally:
        n = inj.stop()
        emit('inj', name=task.name, n=n, fired=inj.fired,
             sites=(sorted(f'{a}:{b}' for a, b in inj.sites) if cfg.get('k') is None else None))


from labtech.cache import PickleCache  # noqa: E402


class ArmedPickleCache(PickleCache):
    """PickleCache whose save() runs under a line failpoint when the plan asks
    for one (reads $VLAB_CTL/plan.json; works in serial, fork and spawn)."""

    def save(self, storage, task, task_result):
        return _armed_save(self, super().save, storage, task, task_result)


class ArmedJsonCache(JsonCache):
    def save(self, storage, task, task_result):
        return _armed_save(self, super().save, storage, task, task_result)


class FaultFile:
    """File proxy: counts write/flush/close calls and fails or kills at the j-th."""

    def __init__(self, real, cfg, key, filename):
        self._real = real
        self._cfg = cfg
        self._key = key
        self._filename = filename
        self._nw = 0

    def _fire(self, what):
        emit('st-fire', what=what, file=self._filename, key=self._key, j=self._nw)

    def write(self, data):
        self._nw += 1
        cfg = self._cfg
        if cfg['op'] == 'write' and self._nw == cfg['j']:
            self._fire('write')
            from .inject import InjectedFault
            raise InjectedFault(f'vlab: write #{self._nw} to {self._filename} failed')
        if cfg['op'] in ('kill-write', 'kill-midwrite') and self._nw == cfg['j']:
            import signal
            if cfg['op'] == 'kill-midwrite' and len(data) > 1:
                self._real.write(data[:len(data) // 2])
            if cfg.get('sync'):
                self._real.flush()
                os.fsync(self._real.fileno())
            self._fire(cfg['op'])
            os.kill(os.getpid(), signal.SIGKILL)
            import time
            time.sleep(30)
        return self._real.write(data)

    def flush(self):
        if self._cfg['op'] == 'flush':
            self._fire('flush')
            from .inject import InjectedFault
            raise InjectedFault(f'vlab: flush of {self._filename} failed')
        return self._real.flush()

    def close(self):
        if self._cfg['op'] == 'count':
            emit('st-count', file=self._filename, key=self._key, writes=self._nw)
        if self._cfg['op'] == 'close' and not self._real.closed:
            self._real.close()
            self._fire('close')
            from .inject import InjectedFault
            raise InjectedFault(f'vlab: close of {self._filename} failed (data may be incomplete)')
        return self._real.close()

    def __enter__(self):
        return self

    def __exit__(self, *exc):
        self.close()
        return False

    def __getattr__(self, name):
        return getattr(self._real, name)


class FaultyStorage(LocalStorage):
    """LocalStorage that injects one fault into the save path when the plan's
    default entry carries 'storage_fault' = {op, j, file, gen, sync}."""

    def file_handle(self, key, filename, *, mode='r'):
        from .body import load_plan
        cfg = None
        if 'w' in mode or 'a' in mode:
            try:
                plan = load_plan()
                cfg = plan.get('default', {}).get('storage_fault')
                if cfg and cfg.get('gen', plan.get('gen')) != plan.get('gen'):
                    cfg = None
            except Exception:
                cfg = None
        if cfg and cfg.get('file') and not filename.startswith(cfg['file']):
            cfg = None
        if cfg and cfg.get('key') and key != cfg['key']:
            cfg = None
        if cfg and cfg['op'] == 'open':
            emit('st-fire', what='open', file=filename, key=key, j=0)
            from .inject import InjectedFault
            raise InjectedFault(f'vlab: open of {filename} failed')
        if cfg and cfg['op'] == 'open-after-mkdir':
            super().file_handle(key, filename, mode=mode).close()
            emit('st-fire', what='open-after-mkdir', file=filename, key=key, j=0)
            from .inject import InjectedFault
            raise InjectedFault(f'vlab: open of {filename} failed after creating it')
        real = super().file_handle(key, filename, mode=mode)
        if cfg:
            return FaultFile(real, cfg, key, filename)
        return real
