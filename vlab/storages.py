"""Harness-owned Cache / Storage implementations installed through labtech's
public extension points (docs/caching.md)."""
import json
import os
from pathlib import Path

from labtech.cache import BaseCache
from labtech.storage import FsspecStorage, LocalStorage

from .events import emit


class JsonCache(BaseCache):
    """Second cache format sharing a storage with PickleCache."""
    KEY_PREFIX = 'json__'
    RESULT_FILENAME = 'data.json'

    def save_result(self, storage, task, result):
        data_file = storage.file_handle(task.cache_key, self.RESULT_FILENAME, mode='w')
        with data_file:
            json.dump(_to_json(result), data_file)

    def load_result(self, storage, task):
        with storage.file_handle(task.cache_key, self.RESULT_FILENAME, mode='r') as data_file:
            return _from_json(json.load(data_file))


def _to_json(v):
    if isinstance(v, tuple):
        return {'__tuple': [_to_json(x) for x in v]}
    if isinstance(v, list):
        return [_to_json(x) for x in v]
    if isinstance(v, dict):
        return {'__dict': [[k, _to_json(x)] for k, x in v.items()]}
    if isinstance(v, bytes):
        return {'__bytes': v.hex()}
    if v is None or isinstance(v, (str, int, float, bool)):
        return v
    raise TypeError(f'vlab JsonCache: cannot encode {type(v).__name__}')


def _from_json(v):
    if isinstance(v, list):
        return [_from_json(x) for x in v]
    if isinstance(v, dict):
        if '__tuple' in v:
            return tuple(_from_json(x) for x in v['__tuple'])
        if '__dict' in v:
            return {k: _from_json(x) for k, x in v['__dict']}
        if '__bytes' in v:
            return bytes.fromhex(v['__bytes'])
    return v


class RecLocalStorage(LocalStorage):
    """LocalStorage that records every operation in the event log."""

    def find_keys(self):
        out = super().find_keys()
        emit('st', op='find_keys', n=len(out))
        return out

    def exists(self, key):
        out = super().exists(key)
        emit('st', op='exists', key=key, out=out)
        return out

    def file_handle(self, key, filename, *, mode='r'):
        emit('st', op='open', key=key, file=filename, mode=mode)
        return super().file_handle(key, filename, mode=mode)

    def delete(self, key):
        emit('st', op='delete', key=key)
        return super().delete(key)


class LocalFsspecStorage(FsspecStorage):
    """The reference implementation from the comment in labtech/storage.py."""

    def __init__(self, storage_dir, **kwargs):
        if isinstance(storage_dir, str):
            storage_dir = Path(storage_dir)
        super().__init__(storage_dir.resolve())

    def fs_constructor(self):
        from fsspec.implementations.local import LocalFileSystem
        return LocalFileSystem()


class MemoryFsspecStorage(FsspecStorage):
    """fsspec's in-memory file system (per process; serial backend only)."""

    def fs_constructor(self):
        from fsspec.implementations.memory import MemoryFileSystem
        return MemoryFileSystem()


def make_storage(kind, path):
    if kind == 'local':
        return LocalStorage(path)
    if kind == 'rec':
        return RecLocalStorage(path)
    if kind == 'pathstr':
        return str(path)
    if kind == 'fsspec-local':
        return LocalFsspecStorage(str(path))
    if kind == 'fsspec-memory':
        return MemoryFsspecStorage('/vlab-mem/' + os.path.basename(str(path)))
    if kind == 'null':
        return None
    raise ValueError(kind)
