"""Offline oracles over one engine Outcome (trace + events + ledger).
Each returns a list of (mechanism key, message); an empty list = held."""
from collections import Counter

from .gen import dependents_of, flat_deps
from .model import dedup, max_parallel, plan, taint


def ctx_of(scn):
    return scn.get('ctx', {'shared': 's', 'for_t0': 'c0', 'for_t1': 'c1', 'other': 'o'})


def planned(scn, out):
    spec = scn['spec']
    req = scn.get('requested') or spec['requested']
    E, L = plan(spec, req, out.cached_before, scn.get('bust', False))
    return E, L


def tainted_set(scn, out):
    E, L = planned(scn, out)
    failing = set((scn.get('failing') or {})) & E
    return taint(scn['spec'], failing, E)


def gen1(events):
    return [e for e in events if e.get('gen', 1) == 1]


# ---------------------------------------------------------------- C02
def c02(scn, out, exp):
    spec = scn['spec']
    E, L = planned(scn, out)
    bad = []
    tainted = tainted_set(scn, out)
    yielded_at = {}
    for c in out.trace.calls:
        if c['op'] == 'yield':
            yielded_at.setdefault(c['name'], c['seq'])
        elif c['op'] == 'submit' and not c['use_cache']:
            for d in flat_deps(spec, c['name']):
                if d not in yielded_at:
                    bad.append(('submit-before-dep', f"submit({c['name']}) at seq {c['seq']} before its dependency "
                                f"{d} was yielded by the runner"))
    ends = {}
    starts = {}
    for e in gen1(out.events):
        if e['k'] == 'end':
            ends.setdefault(e['name'], e['t'])
        elif e['k'] == 'start':
            starts.setdefault(e['name'], e['t'])
    simdeaths = {n for n, a in (scn.get('failing') or {}).items() if a in ('kill', 'exit', 'exit0')} \
        if scn['backend'] == 'sim' else set()
    for n, ts in starts.items():
        for d in flat_deps(spec, n):
            if d in simdeaths:
                continue    # a simulated death emits no events; ordering is checked at the boundary
            if d in E:
                if d not in ends or ends[d] > ts:
                    bad.append(('start-before-dep-end', f'run() of {n} began at {ts} but dependency {d} '
                                f'ended at {ends.get(d)}'))
            elif d in L:
                pass    # loaded: ordering is checked at the runner boundary above
    nreads = 0
    for e in gen1(out.events):
        if e['k'] != 'read':
            continue
        nreads += 1
        d = e['dep']
        if d in tainted:
            if 'raised' not in e:
                bad.append(('read-of-failed-dep', f"{e['name']} read failed dependency {d} and got {e.get('v')}"))
        else:
            if 'raised' in e:
                bad.append(('dep-read-raised', f"{e['name']} could not read dependency {d}: {e['raised']}"))
            elif tuple(e['v']) != tuple(exp[d]):
                bad.append(('dep-read-wrong', f"{e['name']} read {e['v']} for {d}, reference {exp[d]}"))
    return bad, nreads


# ---------------------------------------------------------------- C03
def reachable_instances(scn, out, E):
    """Harness walk: requested instances and, through executed ones, the
    instances inside their parameters."""
    from .body import walk_deps
    seen = {}
    stack = list(out.req)
    while stack:
        x = stack.pop()
        if id(x) in seen:
            continue
        seen[id(x)] = x
        if x.name in E:
            stack.extend(walk_deps(x))
    return list(seen.values())


def c03(scn, out):
    spec = scn['spec']
    E, L = planned(scn, out)
    bad = []
    starts = Counter(e['name'] for e in gen1(out.events) if e['k'] == 'start')
    deaths = {n for n, a in (scn.get('failing') or {}).items() if a in ('kill', 'exit', 'exit0')} \
        if scn['backend'] == 'sim' else set()
    for n, c in starts.items():
        if c > 1:
            bad.append(('executed-twice', f'{n} executed {c} times in one run_tasks call'))
        if n not in E:
            bad.append(('unneeded-execution', f'{n} executed but the plan model says it is '
                        f'{"loaded from cache" if n in L else "outside the needed closure"}'))
    for n in E:
        if starts.get(n, 0) == 0 and n not in deaths:
            bad.append(('missing-execution', f'{n} should have been executed but has no start event'))
    subs = Counter()
    for c in out.trace.calls:
        if c['op'] == 'submit':
            subs[c['name']] += 1
            if c['name'] not in E and c['name'] not in L:
                bad.append(('outside-closure', f"{c['name']} submitted but outside the requested closure"))
            elif c['use_cache'] != (c['name'] in L):
                bad.append(('wrong-use-cache', f"{c['name']} submitted with use_cache={c['use_cache']}, "
                            f"model says {'load' if c['name'] in L else 'execute'}"))
    for n, c in subs.items():
        if c > 1:
            bad.append(('submitted-twice', f'{n} submitted {c} times'))
    for n in (E | L):
        if subs.get(n, 0) == 0:
            bad.append(('never-submitted', f'{n} in the needed closure but never submitted'))
    nloads = None
    if scn.get('storage') == 'rec':
        key2name = {out.built.inst(n).cache_key: n for n in spec['tasks']}
        loads = Counter()
        for e in out.events:
            if e['k'] == 'st' and e.get('op') == 'open' and e.get('file', '').startswith('data.') \
                    and e.get('mode', 'r').startswith('r'):
                loads[key2name.get(e['key'], e['key'])] += 1
        nloads = sum(loads.values())
        for n, c in loads.items():
            if n not in L:
                bad.append(('unneeded-load', f'result of {n} was read from storage {c}x but the model says it is '
                            f'{"executed" if n in E else "not needed"}'))
            elif c > 1:
                bad.append(('loaded-twice', f'result of {n} read from storage {c} times'))
        for n in L:
            if loads.get(n, 0) == 0:
                bad.append(('missing-load', f'{n} should have been loaded from storage'))
    ninst = 0
    if out.exc is None:
        metas = {}
        for x in reachable_instances(scn, out, E):
            ninst += 1
            if x.result_meta is None:
                bad.append(('instance-unmarked', f'an instance of {x.name} reachable from the requested tasks has '
                            f'result_meta None after the run'))
            else:
                if x.name in metas and metas[x.name] != x.result_meta:
                    bad.append(('instance-meta-differs', f'equal instances of {x.name} carry different result_meta'))
                metas[x.name] = x.result_meta
                own = out.trace.metas.get(x.name)
                if own is not None and x.result_meta != own:
                    bad.append(('instance-marked-with-foreign-outcome', f'an instance of {x.name} carries result_meta '
                                f'{x.result_meta}, but the runner reported {own} for {x.name} (it is the outcome of: '
                                f'{[n for n, m in out.trace.metas.items() if m == x.result_meta]})'))
    return bad, ninst, nloads


# ---------------------------------------------------------------- C04
def _type(spec, n):
    return spec['tasks'][n]['type']


def c04(scn, out):
    spec = scn['spec']
    W = out.W
    bad = []
    # (a) runner boundary: in-flight per type at every submit
    inflight = []
    checks = 0
    for c in out.trace.calls:
        if c['op'] == 'submit':
            inflight.append(c['name'])
            cnt = Counter(_type(spec, n) for n in inflight)
            for n in set(inflight):
                mp = max_parallel(spec, n)
                checks += 1
                if mp is not None and cnt[_type(spec, n)] > mp:
                    bad.append(('type-limit-exceeded-at-submit',
                                f"{cnt[_type(spec, n)]} tasks of type {_type(spec, n)} in flight "
                                f"(max_parallel={mp}) after submit({c['name']}): {inflight}"))
        elif c['op'] == 'yield':
            if c['name'] in inflight:
                inflight.remove(c['name'])
    # (b) rest points of gated real runs
    for r in out.rests:
        checks += 1
        if len(r['launched_inflight']) > W and r['ledger_ok']:
            bad.append(('too-many-processes', f"rest {r['idx']}: {len(r['launched_inflight'])} worker processes "
                        f"launched and unfinished, max_workers={W}: {r['launched_inflight']}"))
        if len(r['started']) > W:
            bad.append(('too-many-executing', f"rest {r['idx']}: {len(r['started'])} tasks inside run(), "
                        f"max_workers={W}: {r['started']}"))
        cnt = Counter(_type(spec, n) for n in r['started'])
        for t, k in cnt.items():
            mp = max_parallel(spec, [n for n in r['started'] if _type(spec, n) == t][0])
            if mp is not None and k > mp:
                bad.append(('type-limit-exceeded-executing', f"rest {r['idx']}: {k} tasks of type {t} inside run() "
                            f"(max_parallel={mp})"))
    # (c) interval sweep over run() intervals on the shared monotonic clock
    ev = gen1(out.events)
    points = []
    launch_t = {}
    for e in ev:
        if e['k'] == 'launch' and not e.get('use_cache'):
            launch_t[e['name']] = e['t']
    end_t = {e['name']: e['t'] for e in ev if e['k'] == 'end'}
    # The launch timestamp is taken in the parent *after* Process.start() returned (a lower bound of the
    # process's life would otherwise be claimed too early); on a loaded machine the child can have run to its
    # 'end' event before the parent gets to take it.  Such an interval is empty, not unbounded.
    empty_proc = {n for n, t in launch_t.items() if n in end_t and end_t[n] <= t}
    for e in ev:
        if e['k'] == 'start':
            points.append((e['t'], 1, e['name'], 'run'))
            if e['name'] in launch_t and e['name'] not in empty_proc:
                points.append((launch_t[e['name']], 1, e['name'], 'proc'))
        elif e['k'] == 'end':
            points.append((e['t'], -1, e['name'], 'run'))
            if e['name'] in launch_t and e['name'] not in empty_proc:
                points.append((e['t'], -1, e['name'], 'proc'))
    points.sort(key=lambda p: (p[0], p[1]))
    live = {'run': set(), 'proc': set()}
    peak = 0
    for t, d, n, kind in points:
        if d > 0:
            live[kind].add(n)
            checks += 1
            peak = max(peak, len(live['run']))
            if len(live[kind]) > W:
                bad.append((('too-many-executing' if kind == 'run' else 'too-many-processes'),
                            f"{len(live[kind])} {'tasks inside run()' if kind == 'run' else 'worker processes'} "
                            f"at t={t}, max_workers={W}: {sorted(live[kind])}"))
            if kind == 'run':
                cnt = Counter(_type(spec, x) for x in live['run'])
                mp = max_parallel(spec, n)
                if mp is not None and cnt[_type(spec, n)] > mp:
                    bad.append(('type-limit-exceeded-executing', f"{cnt[_type(spec, n)]} tasks of type "
                                f"{_type(spec, n)} inside run() at t={t} (max_parallel={mp})"))
        else:
            live[kind].discard(n)
    # (d) serial: caller's process and thread, one at a time
    if scn['backend'] == 'serial':
        for e in ev:
            if e['k'] == 'start':
                checks += 1
                if e['pid'] != out.caller_pid or e['tid'] != out.caller_tid:
                    bad.append(('serial-not-in-caller', f"serial backend ran {e['name']} in pid/tid "
                                f"{e['pid']}/{e['tid']}, caller is {out.caller_pid}/{out.caller_tid}"))
    return bad, checks, peak


# ---------------------------------------------------------------- C05
def c05(scn, out):
    spec = scn['spec']
    E, L = planned(scn, out)
    closure = E | L
    W = out.W
    bad, inconclusive = [], []
    checks = 0
    submitted, yielded = [], set()
    interrupted = False
    calls = out.trace.calls
    for i, c in enumerate(calls):
        if c['op'] == 'submit':
            submitted.append(c['name'])
        elif c['op'] == 'yield':
            yielded.add(c['name'])
        elif c['op'] in ('cancel', 'stop'):
            interrupted = True
        elif c['op'] == 'wait' and not interrupted:
            checks += 1
            infl = [n for n in submitted if n not in yielded]
            cnt = Counter(_type(spec, n) for n in infl)
            for n in closure:
                if n in submitted:
                    continue
                deps = flat_deps(spec, n) if n in E else []
                if all(d in yielded for d in deps):
                    mp = max_parallel(spec, n)
                    if mp is None or cnt[_type(spec, n)] < mp:
                        bad.append(('runnable-not-submitted', f"at wait() seq {c['seq']}: {n} has all dependencies "
                                    f"finished and type {_type(spec, n)} has {cnt[_type(spec, n)]} in flight "
                                    f"(limit {mp}) but was not submitted; in flight {infl}"))
                        break
    for r in out.rests:
        checks += 1
        exp = set(r['expected'])
        if r['ledger_ok'] and not exp <= set(r['launched_inflight']):
            bad.append(('slot-left-idle', f"rest {r['idx']}: expected worker processes for {sorted(exp)} "
                        f"(first max_workers={W} of in-flight {r['inflight']}), launched only "
                        f"{r['launched_inflight']}"))
        elif r['timeout']:
            inconclusive.append(f"rest {r['idx']}: processes launched for {r['launched_inflight']} but run() not "
                                f"entered within the start-up wait: started {r['started']}")
        elif set(r['started']) != exp:
            bad.append(('slot-left-idle', f"rest {r['idx']}: executing {r['started']} != expected {sorted(exp)}"))
    if scn['backend'] == 'serial':
        i = 0
        while i < len(calls):
            c = calls[i]
            if c['op'] == 'wait' and c['inflight']:
                checks += 1
                ny = 0
                j = i + 1
                while j < len(calls) and calls[j]['op'] != 'wait-end':
                    if calls[j]['op'] == 'yield':
                        ny += 1
                    j += 1
                if j < len(calls) and ny != 1:
                    bad.append(('serial-wait-idle', f"serial wait() with {len(c['inflight'])} pending submissions "
                                f"yielded {ny} tasks"))
                i = j
            i += 1
    return bad, inconclusive, checks


# ---------------------------------------------------------------- C17
def c17(scn, out):
    spec = scn['spec']
    E, L = planned(scn, out)
    bad = []
    dependents = {n: set() for n in spec['tasks']}
    for n in E:
        for d in flat_deps(spec, n):
            dependents[d].add(n)
    yielded = set()
    ok_yield = set()
    checks = 0
    calls = out.trace.calls
    last_yield = None
    for i, c in enumerate(calls):
        if c['op'] == 'yield':
            yielded.add(c['name'])
            if c['ok']:
                ok_yield.add(c['name'])
            last_yield = c
            # the next call must be (get_result,) remove with everything now releasable
            x = c['name']
            cand = set(flat_deps(spec, x) if x in E else []) | {x}
            expected = {d for d in cand if d in yielded and dependents[d] <= yielded}
            j = i + 1
            while j < len(calls) and calls[j]['op'] in ('get_result',):
                j += 1
            if j < len(calls) and calls[j]['op'] == 'remove':
                checks += 1
                miss = expected - set(calls[j]['names'])
                if miss and out.exc is None:
                    bad.append(('not-released-when-last-dependent-finished',
                                f"after yield({x}) results of {sorted(miss)} have no unfinished dependent but were "
                                f"not passed to remove_results: {calls[j]['names']}"))
            elif out.exc is None and j < len(calls):
                bad.append(('no-release-after-yield', f"yield({x}) was not followed by remove_results "
                            f"(next: {calls[j]['op']})"))
        elif c['op'] == 'remove':
            for d in c['names']:
                checks += 1
                hold = dependents[d] - yielded
                if hold:
                    bad.append(('released-while-needed', f"remove_results({d}) while direct dependents "
                                f"{sorted(hold)} have not finished"))
                if d not in yielded:
                    bad.append(('released-before-finished', f"remove_results({d}) before {d} finished"))
            left = c.get('left_after')
            if left:
                bad.append(('release-ineffective', f"remove_results({c['names']}) left results of {left} in the "
                            f"runner"))
        elif c['op'] == 'get_result' and 'raised' in c:
            bad.append(('requested-value-lost', f"get_result({c['name']}) raised {c['raised']}: value of a requested "
                        f"task no longer in memory when captured"))
        elif c['op'] == 'submit' and c.get('dep_unavailable'):
            bad.append(('dependency-result-gone-at-submit', f"submit({c['name']}): results of "
                        f"{c['dep_unavailable']} no longer in the runner"))
    if out.exc is None:
        checks += 1
        if out.trace.close_probe:
            bad.append(('results-left-at-close', f"run_tasks returned normally but the runner still holds results "
                        f"of {sorted(set(out.trace.close_probe))} at close()"))
    tainted = tainted_set(scn, out)
    for e in gen1(out.events):
        if e['k'] == 'read' and 'raised' in e and e['dep'] not in tainted:
            bad.append(('dependency-unreadable', f"{e['name']} could not read {e['dep']} ({e['raised']}): result "
                        f"released too early or never provided"))
    return bad, checks


# ---------------------------------------------------------------- C02, second call on the same task objects
def c02_second(scn, out):
    """After a second run_tasks call (bust_cache=True, generation 2) with the same Lab and the same task objects,
    every dependency read must return that dependency's value *from the second call* (or raise if it failed)."""
    from .gen import closure
    spec = scn['spec']
    sec = out.second
    bad = []
    if not sec:
        return bad, 0
    req = scn.get('requested') or spec['requested']
    E2 = closure(spec, req)
    failing2 = set((scn['second_run'].get('failing') or {})) & E2
    tainted2 = taint(spec, failing2, E2)
    from .model import ref_value
    ctx = ctx_of(scn)
    memo = {}
    nreads = 0
    for e in sec['events']:
        if e['k'] != 'read' or e.get('gen', 2) != 2:
            continue
    for e in sec['events']:
        if e['k'] != 'read':
            continue
        nreads += 1
        d = e['dep']
        if d in tainted2:
            if 'raised' not in e:
                bad.append(('stale-read-of-failed-dep', f"second call: {e['name']} read dependency {d}, which failed in this "
                            f"call, and got {e.get('v')} (a value from the earlier call)"))
        elif 'raised' in e:
            bad.append(('dep-read-raised', f"second call: {e['name']} could not read {d}: {e['raised']}"))
        else:
            want = ref_value(spec, d, ctx, lambda _n: 2, memo)
            if tuple(e['v']) != tuple(want):
                bad.append(('stale-dep-read', f"second call: {e['name']} read {e['v']} for {d}; this call computed {want}"))
    return bad, nreads
