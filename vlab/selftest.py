"""MANIFEST.setup_cmd: nothing to build or install; verifies the harness imports
against /repo's working tree with /venv's interpreter."""
import os
import sys

HERE = os.path.dirname(os.path.dirname(os.path.abspath(__file__)))
sys.path.insert(0, os.environ.get('VLAB_REPO', '/repo'))
sys.path.insert(1, HERE)


def main():
    import labtech
    from vlab import body, engine, gate, gen, model, spy, storages, tasks_core  # noqa
    import psutil, fsspec, frozendict  # noqa
    print('vlab selftest ok; labtech from', labtech.__file__)


if __name__ == '__main__':
    main()
