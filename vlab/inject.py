"""Source-free line failpoints (observation/injection channel 7).

sys.monitoring LINE events restricted to code objects of the imported labtech
package, counted in the armed thread of the armed process; at the k-th event
the configured action happens *at that line of labtech's code*: raise an
exception, SIGKILL/SIGTERM the process, or park.

The 'interrupt' action models a SIGINT that ARRIVES when the main thread reaches line k.  CPython does not run
signal handlers at arbitrary instructions: the KeyboardInterrupt appears at the interpreter's next eval-breaker
check (function entry / generator resume, backward jump, return of a call into C).  Raising it at the line start
itself would manufacture interleavings the program cannot have (e.g. between an `except ...:` clause and the
`try:` that follows it, where no such check exists), so the injector switches on PY_START / PY_RESUME / JUMP /
C_RETURN events at arrival and raises KeyboardInterrupt from the first of them that occurs outside harness code."""
import linecache
import os
import signal
import sys
import threading
import time

TOOL_ID = 4
_HARNESS_DIR = os.path.dirname(os.path.abspath(__file__)) + os.sep


class InjectedFault(OSError):
    """The exception raised by 'raise' failpoints (an OSError: what a storage
    back end would raise)."""


class InjectedBase(BaseException):
    """A failure that is not an Exception (like SystemExit / GeneratorExit raised while a result is being written)."""


_current = None


class Injector:
    def __init__(self, k=None, action='raise', pkg_dir=None, every_thread=False, on_fire=None, extra_files=(),
                 only_extra=False):
        self.k = k
        self.action = action
        self.count = 0
        self.fired = None
        self.sites = {}
        self.ks_by_file = {}        # count mode: the k values of every line, per labtech file
        self.pid = None
        self.tid = None
        self.armed = False
        self.every_thread = every_thread
        self.on_fire = on_fire
        if pkg_dir is None:
            import labtech
            pkg_dir = os.path.dirname(os.path.abspath(labtech.__file__))
        self.pkg_dir = pkg_dir + os.sep
        self.extra_files = tuple(extra_files)
        self.only_extra = only_extra
        self._pending = None        # site of an interrupt that has arrived and is not delivered yet
        self._jump_code = None
        self.deliveries = {}

    def _cb(self, code, line):
        if self._jump_code is not None:
            # the line event that follows a backward jump (loop header): where CPython's check at the jump puts it
            jc, self._jump_code = self._jump_code, None
            if jc is code and self._pending is not None:
                return self._deliver(code)
        fn = code.co_filename
        if not fn.startswith(self.pkg_dir):
            if not (self.extra_files and fn.endswith(self.extra_files)):
                return sys.monitoring.DISABLE
        elif self.only_extra:
            return sys.monitoring.DISABLE
        if not self.armed or os.getpid() != self.pid:
            return None
        if code.co_name == '__del__':
            return None     # CPython ignores exceptions (also a real KeyboardInterrupt) raised inside __del__
        if self.extra_files:
            f = sys._getframe(1)
            for _ in range(8):      # ... or in anything a finalizer calls (Connection.__del__ -> _close)
                if f is None:
                    break
                if f.f_code.co_name in ('__del__', '_run_finalizers', '__call__') and (
                        f.f_code.co_name == '__del__' or 'multiprocessing/util.py' in f.f_code.co_filename):
                    return None
                f = f.f_back
        if not self.every_thread and threading.get_ident() != self.tid:
            return None
        self.count += 1
        if self.k is None:
            key = ((fn[len(self.pkg_dir):] if fn.startswith(self.pkg_dir) else 'py:' + os.path.basename(fn)), code.co_name)
            self.sites[key] = self.sites.get(key, 0) + 1
            self.ks_by_file.setdefault(key[0], []).append(self.count)
            return None
        if self.count == self.k:
            self.armed = False
            site = {'file': (fn[len(self.pkg_dir):] if fn.startswith(self.pkg_dir) else 'py:' + os.path.basename(fn)),
                    'func': code.co_name, 'line': line,
                    'text': linecache.getline(fn, line).strip()[:120], 'k': self.k}
            self.fired = site
            if self.action == 'interrupt':
                self._pending = site
                self._delivery_events(True)
                return None
            if self.on_fire is not None:
                self.on_fire(site)
            if self.action == 'raise':
                raise InjectedFault(f'vlab injected fault at {site["file"]}:{site["func"]}:{line}')
            if self.action == 'raise-base':
                raise InjectedBase(f'vlab injected non-Exception fault at {site["file"]}:{site["func"]}:{line}')
            if self.action == 'kill':
                os.kill(os.getpid(), signal.SIGKILL)
                time.sleep(30)
            if self.action == 'term':
                os.kill(os.getpid(), signal.SIGTERM)
                time.sleep(30)
            if self.action == 'int':
                # a SIGINT that reaches this process (Ctrl-C goes to the whole foreground process group): a worker
                # that ignores it, as labtech's workers do, simply carries on
                os.kill(os.getpid(), signal.SIGINT)
                return None
            if self.action == 'park':
                time.sleep(40)
                os._exit(98)
        return None

    # ---- delivery of an arrived interrupt at the next eval-breaker-equivalent event
    def _delivery_events(self, on):
        mon = sys.monitoring
        ev = mon.events
        try:
            mon.set_events(TOOL_ID, ev.LINE | ((ev.PY_START | ev.PY_RESUME | ev.JUMP | ev.CALL) if on else 0))
        except ValueError:
            pass

    def _deliver(self, code):
        site = self._pending
        if site is None or os.getpid() != self.pid or threading.get_ident() != self.tid:
            return None
        fn = code.co_filename
        if fn.startswith(_HARNESS_DIR):
            return None         # the harness's wrappers are transparent: the program under test has no such frames
        f = sys._getframe(1)
        for _ in range(12):     # CPython ignores exceptions (also a real KeyboardInterrupt) raised inside finalizers
            if f is None:       # and in anything they call (Connection.__del__ -> _close): not a delivery point
                break
            c = f.f_code
            if c.co_name == '__del__' or (c.co_name in ('_run_finalizers', '__call__')
                                          and 'multiprocessing/util.py' in c.co_filename) \
                    or c.co_filename.endswith(('/_weakrefset.py', '/weakref.py')):
                return None     # ... and inside weak-reference callbacks (WeakSet._remove while a Thread is collected)
            f = f.f_back
        self._pending = None
        self._delivery_events(False)
        where = (fn[len(self.pkg_dir):] if fn.startswith(self.pkg_dir) else 'py:' + os.path.basename(fn)) + ':' + code.co_name
        self.deliveries[where] = self.deliveries.get(where, 0) + 1
        site = dict(site, delivered_in=where)
        self.fired = site
        if self.on_fire is not None:
            self.on_fire(site)
        raise KeyboardInterrupt()

    def _on_start(self, code, offset):
        if self._pending is not None:
            return self._deliver(code)

    def _on_jump(self, code, offset, dest):
        # CPython 3.12.1: an exception raised by a JUMP callback escapes the try block that encloses the loop
        # (the interpreter resumes its unwinding from the jump's destination), so the interrupt is raised by the
        # LINE event of the loop header that follows the backward jump instead (same try nesting as the loop body).
        if self._pending is not None and dest < offset and threading.get_ident() == self.tid and os.getpid() == self.pid:
            self._jump_code = code

    def _on_c_return(self, code, offset, func, arg0):
        if self._pending is not None:
            return self._deliver(code)

    def start(self):
        global _current
        if _current is not None:
            _current.stop()
        self.pid = os.getpid()
        self.tid = threading.get_ident()
        mon = sys.monitoring
        try:
            mon.use_tool_id(TOOL_ID, 'vlab')
        except ValueError:
            mon.free_tool_id(TOOL_ID)
            mon.use_tool_id(TOOL_ID, 'vlab')
        mon.register_callback(TOOL_ID, mon.events.LINE, self._cb)
        if self.action == 'interrupt':
            mon.register_callback(TOOL_ID, mon.events.PY_START, self._on_start)
            mon.register_callback(TOOL_ID, mon.events.PY_RESUME, self._on_start)
            mon.register_callback(TOOL_ID, mon.events.JUMP, self._on_jump)
            mon.register_callback(TOOL_ID, mon.events.C_RETURN, self._on_c_return)
        mon.set_events(TOOL_ID, mon.events.LINE)
        mon.restart_events()
        self.armed = True
        _current = self
        return self

    def rearm(self, k, action=None):
        """Second failpoint in the same run (C14 double interrupt)."""
        self.k = self.count + k
        if action:
            self.action = action
        self.fired2 = None
        self.armed = True

    def stop(self):
        global _current
        self.armed = False
        self._pending = None
        self._jump_code = None
        mon = sys.monitoring
        try:
            mon.set_events(TOOL_ID, 0)
            for e in (mon.events.LINE, mon.events.PY_START, mon.events.PY_RESUME, mon.events.JUMP, mon.events.C_RETURN):
                mon.register_callback(TOOL_ID, e, None)
            mon.free_tool_id(TOOL_ID)
        except ValueError:
            pass
        if _current is self:
            _current = None
        return self.count


def stop_inherited():
    """A forked child inherits the parent's monitoring state: switch it off."""
    mon = sys.monitoring
    try:
        if mon.get_tool(TOOL_ID) is not None:
            mon.set_events(TOOL_ID, 0)
    except ValueError:
        pass


def site_key(site):
    if not site:
        return None
    return f"{site['file']}:{site['func']}"


def prereturn(hook, name):
    pass
