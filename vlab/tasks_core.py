"""Module-level (importable, picklable) harness task types."""
from typing import Any

import os

import labtech

from .body import run_body
from .storages import JsonCache


def _mk_fields(cls):
    return cls


@labtech.task
class NA:
    name: str
    one: Any = None
    many: Any = ()
    named: Any = None
    p: Any = None

    def run(self):
        return run_body(self)


@labtech.task(max_parallel=1)
class NB:
    name: str
    one: Any = None
    many: Any = ()
    named: Any = None
    p: Any = None

    def run(self):
        return run_body(self)


class NC:
    name: str
    one: Any = None
    many: Any = ()
    named: Any = None
    p: Any = None

    def run(self):
        return run_body(self)


# declared through the call form labtech.task(cls, options) rather than the decorator syntax
NC = labtech.task(NC, max_parallel=2)


@labtech.task(max_parallel=3)
class ND:
    name: str
    one: Any = None
    many: Any = ()
    named: Any = None
    p: Any = None

    def run(self):
        return run_body(self)


@labtech.task(cache=None)
class NN:
    name: str
    one: Any = None
    many: Any = ()
    named: Any = None
    p: Any = None

    def run(self):
        return run_body(self)


@labtech.task(cache=JsonCache())
class NJ:
    name: str
    one: Any = None
    many: Any = ()
    named: Any = None
    p: Any = None

    def run(self):
        return run_body(self)


@labtech.task
class NF:
    """Context filter: only the per-name slice plus the shared entry."""
    name: str
    one: Any = None
    many: Any = ()
    named: Any = None
    p: Any = None

    def filter_context(self, context):
        return {k: v for k, v in context.items() if k in ('shared', f'for_{self.name}')}

    def run(self):
        return run_body(self)


class _SubsetFilterMixin:
    """A context filter that task types INHERIT (it is not defined in their own class body)."""

    def filter_context(self, context):
        return {k: v for k, v in context.items() if k in ('shared', f'for_{self.name}')}


@labtech.task
class NG(_SubsetFilterMixin):
    """Same filter as NF, inherited from a mixin."""
    name: str
    one: Any = None
    many: Any = ()
    named: Any = None
    p: Any = None

    def run(self):
        return run_body(self)


@labtech.task
class NZ:
    """A task type whose instances are falsy (defines __bool__)."""
    name: str
    one: Any = None
    many: Any = ()
    named: Any = None
    p: Any = None

    def __bool__(self):
        return False

    def run(self):
        return run_body(self)


@labtech.task
class NE:
    """Context filter that legitimately selects nothing (returns an empty dict)."""
    name: str
    one: Any = None
    many: Any = ()
    named: Any = None
    p: Any = None

    def filter_context(self, context):
        return {k: v for k, v in context.items() if k == f'only_for_{self.name}_which_never_exists'}

    def run(self):
        return run_body(self)


@labtech.task
class NT:
    """Transforming (non-idempotent) context filter: derives and renames values."""
    name: str
    one: Any = None
    many: Any = ()
    named: Any = None
    p: Any = None

    def filter_context(self, context):
        return {'depth': context.get('depth', 0) + 1, 'mine': context.get(f'for_{self.name}', context.get('shared')),
                'n_keys': len(context)}

    def run(self):
        return run_body(self)


@labtech.task
class NP:
    """post_init derives an attribute that run() reports."""
    name: str
    one: Any = None
    many: Any = ()
    named: Any = None
    p: Any = None

    def post_init(self):
        object.__setattr__(self, 'derived', f'derived<{self.name}>')

    def run(self):
        if self.derived != f'derived<{self.name}>':
            raise RuntimeError('derived attribute wrong')
        return run_body(self)


@labtech.task
class NAX:
    """Unrelated type whose name has NA as a prefix."""
    name: str
    one: Any = None
    many: Any = ()
    named: Any = None
    p: Any = None

    def run(self):
        return run_body(self)


from .storages import ArmedJsonCache, ArmedPickleCache  # noqa: E402


class NM:
    """Uncached and limited: the two decorator options combined."""
    name: str
    one: Any = None
    many: Any = ()
    named: Any = None
    p: Any = None

    def run(self):
        return run_body(self)


# declared through the call form labtech.task(cls, options) rather than the decorator syntax
NM = labtech.task(NM, cache=None, max_parallel=2)


@labtech.task(cache=JsonCache(), max_parallel=1)
class NK:
    """Other cache format and limited."""
    name: str
    one: Any = None
    many: Any = ()
    named: Any = None
    p: Any = None

    def run(self):
        return run_body(self)


@labtech.task(cache=ArmedPickleCache())
class NS:
    """Pickle cache whose save() can run under a line failpoint."""
    name: str
    one: Any = None
    many: Any = ()
    named: Any = None
    p: Any = None

    def run(self):
        return run_body(self)


@labtech.task(cache=ArmedPickleCache())
class NSP:
    """Armed pickle cache + a post_init that rewrites a parameter into canonical form (the cache_key was computed
    before that, so a key recomputed later differs)."""
    name: str
    one: Any = None
    many: Any = ()
    named: Any = None
    p: Any = None

    def post_init(self):
        if isinstance(self.p, str):
            object.__setattr__(self, 'p', self.p.strip().lower())

    def run(self):
        return run_body(self)


@labtech.task(cache=ArmedJsonCache())
class NSJ:
    name: str
    one: Any = None
    many: Any = ()
    named: Any = None
    p: Any = None

    def run(self):
        return run_body(self)


@labtech.task(cache=None)
class NR:
    """post_init rewrites a string parameter into canonical form: instances built from differently spelled
    arguments (' X ', 'x') are EQUAL tasks.  Not cached: the cache_key is computed before post_init, so such
    twins would have different keys - that quirk is left out of this type's business."""
    name: str
    one: Any = None
    many: Any = ()
    named: Any = None
    p: Any = None

    def post_init(self):
        if isinstance(self.p, str):
            object.__setattr__(self, 'p', self.p.strip().lower())

    def run(self):
        return run_body(self)


@labtech.task
class _ple:
    """A class name that starts with an underscore and consists only of characters that also occur in labtech's
    key prefix 'pickle__' (a prefix is not a character set)."""
    name: str
    one: Any = None
    many: Any = ()
    named: Any = None
    p: Any = None

    def run(self):
        return run_body(self)


@labtech.task
class N__U_:
    """A (legal) class name with a double underscore inside and an underscore at the end: the separators labtech
    itself uses when it builds cache keys (<format>__<type name>__<hash>)."""
    name: str
    one: Any = None
    many: Any = ()
    named: Any = None
    p: Any = None

    def run(self):
        return run_body(self)


TYPES = {c.__name__: c for c in (NA, NB, NC, ND, NN, NJ, NF, NP, NAX, NS, NSJ, NSP, NM, NK, NT, NE, NZ, N__U_, NR, _ple, NG)}
MAX_PARALLEL = {'NG': None, '_ple': None, 'NR': None, 'N__U_': None, 'NSP': None, 'NZ': None, 'NE': None, 'NT': None, 'NM': 2, 'NK': 1, 'NS': None, 'NSJ': None, 'NA': None, 'NB': 1, 'NC': 2, 'ND': 3, 'NN': None, 'NJ': None, 'NF': None, 'NP': None, 'NAX': None}
UNCACHED = {'NN', 'NM', 'NR'}


def filter_ctx(tname, name, ctx):
    """Harness-side statement of what each type's filter_context selects."""
    if ctx is None:
        return None
    if tname in ('NF', 'NG'):
        return {k: v for k, v in ctx.items() if k in ('shared', f'for_{name}')}
    if tname == 'NE':
        return {}
    if tname == 'NT':
        return {'depth': ctx.get('depth', 0) + 1, 'mine': ctx.get(f'for_{name}', ctx.get('shared')), 'n_keys': len(ctx)}
    return ctx


# ---------------------------------------------------------------- value-grammar types (C07/C09/C15)
from enum import Enum  # noqa: E402


class Color(Enum):
    RED = 1
    GREEN = 2


class Shade(Enum):
    RED = 1
    DARK = 'd'


from enum import IntEnum, IntFlag, StrEnum  # noqa: E402


class Level(IntEnum):
    """Mixed-in enum: members are int instances."""
    LOW = 1
    HIGH = 2
    ZERO = 0


class Mode(StrEnum):
    """Mixed-in enum: members are str instances."""
    A = 'a'
    RED = 'RED'
    EMPTY = ''


class Perm(IntFlag):
    R = 1
    W = 2


class Train:
    """Enum classes nested in other classes: two of them share the short name Mode within this module."""
    class Mode(Enum):
        FAST = 1
        SLOW = 2


class Evaluate:
    class Mode(Enum):
        FAST = 1
        FULL = 'full'


class KeyE(str, Enum):
    """String-valued enum members used as dict KEYS: they are strings (isinstance str, equal and hash-equal to the
    plain string), their str() is not the string."""
    A = 'a'
    B = 'b'
    K = 'k'
    EMPTY = ''
    E = '\u00e9'
    NAME = 'name'
    IS_TASK = 'is_task'
    XY = 'x.y'
    ZERO = '0'
    P = 'p'


class SubFloat(float):
    """A scalar whose type is a subclass of a supported scalar type (the stand-in for numpy.float64)."""


class SubStr(str):
    pass


class SubInt(int):
    pass


def _val_run(self):
    from .events import emit
    import os
    if os.environ.get('VLAB_CTL'):
        emit('vstart', key=self.cache_key, type=type(self).__name__)
    return ('val', type(self).__module__, type(self).__qualname__, self.cache_key)


@labtech.task
class VT:
    """C01 'twins': the value is the harness's own typed identity of the task's parameters, so a task that is handed
    another task's result (two near-identical tasks confused anywhere between planning, caching and loading) shows."""
    p: Any = None
    q: Any = None

    def run(self):
        import json
        from .events import emit
        from .valgen import obj_ident
        if os.environ.get('VLAB_CTL'):
            emit('vstart', key=self.cache_key, type='VT')
        return ('twin', json.dumps(obj_ident(self)))


@labtech.task
class VA:
    p: Any = None
    q: Any = None

    def run(self):
        return _val_run(self)


@labtech.task
class VB:
    p: Any = None
    q: Any = None

    def run(self):
        return _val_run(self)


@labtech.task
class VAX:
    p: Any = None
    q: Any = None

    def run(self):
        return _val_run(self)


@labtech.task(cache=JsonCache())
class VJ:
    p: Any = None
    q: Any = None

    def run(self):
        return _val_run(self)


@labtech.task
class VP:
    """post_init-derived attribute (C15)."""
    p: Any = None
    q: Any = None

    def post_init(self):
        object.__setattr__(self, 'derived', ('derived', repr(self.p)))

    def run(self):
        return _val_run(self)


@labtech.task
class VU:
    """Has a parameter whose name starts with an underscore (legal, not reserved)."""
    p: Any = None
    _q: Any = None

    def run(self):
        return _val_run(self)


@labtech.task
class VÉ:
    """A module-level task type whose (valid Python) name is not ASCII: it ends up in cache keys and directory names."""
    p: Any = None
    q: Any = None

    def run(self):
        return _val_run(self)


@labtech.task
class kick_:
    """Lower-case class name made of characters of 'pickle__' / ending in an underscore."""
    p: Any = None
    q: Any = None

    def run(self):
        return _val_run(self)


@labtech.task
class V__W_:
    """Double underscore inside and underscore at the end of the class name (see N__U_)."""
    p: Any = None
    q: Any = None

    def run(self):
        return _val_run(self)


@labtech.task
class VS:
    """post_init rewrites a parameter into a canonical form (C15 only: its cache_key is computed before that)."""
    p: Any = None
    q: Any = None

    def post_init(self):
        if isinstance(self.q, str):
            object.__setattr__(self, 'q', self.q.strip().lower())
        object.__setattr__(self, 'derived', ('derived', repr(self.q)))

    def run(self):
        return _val_run(self)


VTYPES = {c.__name__: c for c in (VA, VB, VAX, VJ, VP, VU, VS)}
