"""C06 - a cache hit returns the result and metadata stored for that very task."""

META = {
    'level': 'exploration',
    'rule': ('Random DAGs of cacheable types (Pickle and JSON cache formats, context filter, post_init) with result '
             'shapes {small tuple, nested containers, ~300 KiB multi-frame pickle}; first run under backend B1 '
             '(serial/fork/spawn) records value and result_meta of every task; second run in the same process under '
             'B2 and third run in a fresh interpreter with another PYTHONHASHSEED under B3 request random subsets. '
             'Separately, a stand-alone user script whose task types live in __main__ (the README way of using labtech; nested tasks, post_init, dict parameter) is run for every ordered backend pair: first run under B1, second run with fresh objects under B2 - no re-execution, equal values and result_meta, all entries listed; a third run uses the task objects returned by cached_tasks (rebuilt from stored metadata; one parameter is a dict whose keys are not in sorted order) and must hit as well. A fourth phase replaces the entries (bust_cache with new instances under B4) and then hits the cache under B5 with the ORIGINAL task objects, which still carry the result_meta of the overwritten execution. Oracle: is_cached true for every executed task; later runs return the recorded values (values embed '
             'task name and the generation of the run that computed them, so a cross-wired or re-executed result '
             'differs), produce zero run() start events, and every loaded instance carries the recorded start and '
             'duration. Distinct by (DAG, shapes, B1, B2, B3, seeds); non-trivial when >= 2 tasks were loaded in a '
             'later run.'),
    'assumptions': ['cache=None types excluded (nothing to hit)', 'LocalStorage and fsspec-local storage'],
    'tiers': {
        'quick': {'shards': 16, 'budget_s': 45, 'n': 288},
        'thorough': {'shards': 16, 'budget_s': 300, 'n': 6000},
    },
}

TYPES = (('NA', 2), ('_ple', 1), ('N__U_', 2), ('NB', 1), ('NC', 1), ('NJ', 3), ('NF', 2), ('NP', 2))


def one(rep, rng, j):
    import json
    import os
    import random
    import subprocess
    import sys
    import labtech
    from vlab import engine, events
    from vlab.body import base_of
    from vlab.dagcommon import scn_key
    from vlab.gen import Built, gen_spec, closure
    from vlab.model import ref_value
    from vlab.storages import make_storage
    spec = gen_spec(rng, nmax=rng.choice([3, 5, 8]), types=TYPES)
    names = list(spec['tasks'])
    B1, B2, B3 = (rng.choice(['serial', 'fork', 'spawn']) for _ in range(3))
    skind = rng.choice(['local', 'local', 'fsspec-local'])
    ctx = {'shared': 's', 'for_t0': 'c0', 'other': 'o'}
    ctl = engine.new_ctl('vlab-c06-')
    store = os.path.join(ctl, 'store')
    engine.quiet_labtech()
    shapes = {n: {'shape': rng.choice(['small', 'small', 'nested', 'big'])} for n in names}
    for n in names:
        if spec['tasks'][n]['type'] == 'NJ' and shapes[n]['shape'] == 'big' and rng.random() < 0.5:
            shapes[n]['shape'] = 'nested'
    wit = {'spec': spec, 'B': [B1, B2, B3], 'storage': skind, 'shapes': shapes, 'job': {'seed': rep.seed, 'j': j}}
    try:
        engine.write_plan(ctl, 1, shapes)
        b1 = Built(spec, rng=random.Random(rng.randrange(1 << 30)), fresh_prob=rng.choice([0, 0.5]))
        lab1 = labtech.Lab(storage=make_storage(skind, store), runner_backend=B1, max_workers=rng.choice([1, 2, None]),
                           context=ctx)
        req1 = [b1.inst(n) for n in names]
        try:
            res1 = lab1.run_tasks(req1, disable_progress=True, disable_top=True)
        except BaseException as ex:   # noqa
            rep.inconclusive(f'first run raised {type(ex).__name__}: {ex}', wit)
            return
        val1 = {t.name: base_of(v) for t, v in res1.items()}
        full1 = {t.name: v for t, v in res1.items()}
        memo = {}
        for n in names:
            if tuple(val1[n]) != tuple(ref_value(spec, n, ctx, lambda _n: 1, memo)):
                rep.foreign['first-run value differs from reference (C01)'] += 1
        meta1 = {n: b1.canon[n].result_meta for n in names}
        for n in names:
            rep.count('first_run_executions')
            if not lab1.is_cached(b1.canon[n]):
                rep.violation('executed-but-not-cached', f'{n} executed successfully under {B1} but is_cached is False', wit)
        # ---- second run, same process
        engine.write_plan(ctl, 2, shapes)
        pre = len(events.read_events(ctl))
        b2 = Built(spec, rng=random.Random(rng.randrange(1 << 30)), fresh_prob=rng.choice([0, 0.5, 1.0]))
        req_names2 = rng.sample(names, rng.randrange(1, len(names) + 1))
        req2 = b2.requested(req_names2)
        # in half of the cases every later Lab of this process is given ONE Storage object (read-path memos keyed by
        # the storage instance then see the entries being replaced)
        shared_storage = make_storage(skind, store) if rng.random() < 0.5 else None
        if shared_storage is not None:
            rep.count('cases_with_one_storage_object_for_all_labs')
        lab2 = labtech.Lab(storage=(shared_storage or make_storage(skind, store)), runner_backend=B2, max_workers=rng.choice([1, 2, None]),
                           context={'shared': 'different-context'})
        try:
            res2 = lab2.run_tasks(req2, disable_progress=True, disable_top=True)
        except BaseException as ex:   # noqa
            rep.violation(f'second-run-raised:{type(ex).__name__}', f'second run under {B2} raised {ex}', wit)
            return
        starts = [e['name'] for e in events.read_events(ctl)[pre:] if e['k'] == 'start']
        if starts:
            rep.violation('cache-hit-executed', f'second run ({B2}) called run() for cached tasks {starts}', wit)
        nloaded = 0
        for t, v in res2.items():
            nloaded += 1
            rep.count('hits_compared')
            if v != full1[t.name]:
                rep.violation('hit-value-differs', f'{t.name}: second run returned {str(v)[:120]}, stored {str(full1[t.name])[:120]}', wit)
        for o in req2:
            n = o.name
            if True:
                rep.count('metas_compared')
                if o.result_meta is None:
                    rep.violation('hit-meta-missing', f'instance of requested {n} has no result_meta after a cache hit', wit)
                elif o.result_meta != meta1[n]:
                    rep.violation('hit-meta-differs', f'{n}: result_meta {o.result_meta} != originally recorded {meta1[n]}', wit)
        # ---- third run, fresh interpreter, other hash seed
        jobfile = os.path.join(ctl, 'job.json')
        outfile = os.path.join(ctl, 'job.out.json')
        req3 = rng.sample(names, rng.randrange(1, len(names) + 1))
        json.dump({'ctl': ctl, 'spec': spec, 'requested': req3, 'backend': B3, 'store': store, 'storage': skind,
                   'max_workers': rng.choice([1, 2, None]), 'ctx': ctx, 'out': outfile,
                   'build_seed': rng.randrange(1 << 30), 'fresh_prob': rng.choice([0, 0.5])}, open(jobfile, 'w'))
        env = dict(os.environ)
        env['PYTHONHASHSEED'] = str(rng.randrange(1, 1 << 30))
        try:
            subprocess.run([sys.executable, '-m', 'vlab.c06child', jobfile], env=env, timeout=120,
                           stdout=subprocess.DEVNULL, stderr=subprocess.DEVNULL, start_new_session=True)
        except subprocess.TimeoutExpired:
            rep.inconclusive('fresh-interpreter run timed out', wit)
            return
        if not os.path.exists(outfile):
            rep.inconclusive('fresh-interpreter run left no report', wit)
            return
        r3 = json.load(open(outfile))
        rep.seen('hash_seeds_second_run', r3['hashseed'])
        if 'error' in r3:
            rep.violation('fresh-run-raised', f'fresh interpreter ({B3}) failed: {r3["error"][-400:]}', wit)
            return
        for n, c in r3['is_cached'].items():
            if not c:
                rep.violation('not-cached-in-new-process', f'{n} not reported cached in a fresh interpreter', wit)
        if r3['starts']:
            rep.violation('cache-hit-executed', f'fresh interpreter ({B3}) called run() for {r3["starts"]}', wit)
        for n, v in r3['values']:
            rep.count('hits_compared')
            nloaded += 1
            if tuple(v) != tuple(val1[n]):
                rep.violation('hit-value-differs', f'{n}: fresh interpreter returned {v}, stored {val1[n]}', wit)
        for n, st, du in r3['metas']:
            rep.count('metas_compared')
            m = meta1[n]
            if st != (m.start.isoformat() if m.start else None) or du != (m.duration.total_seconds() if m.duration is not None else None):
                rep.violation('hit-meta-differs', f'{n}: fresh interpreter meta {st}/{du} != recorded {m}', wit)
        for n in r3['unmarked']:
            if n in req3:
                rep.violation('hit-meta-missing', f'requested {n} unmarked in fresh interpreter', wit)
        # ---- instance reuse: the entries are replaced (bust_cache, new instances, other backend), then the cache
        # is hit with the ORIGINAL instances, which still carry the result_meta of the overwritten execution
        if rng.random() < 0.7:
            B4, B5 = rng.choice(['serial', 'fork', 'spawn']), rng.choice(['serial', 'fork', 'spawn'])
            engine.write_plan(ctl, 3, shapes)
            b4 = Built(spec)
            lab4 = labtech.Lab(storage=(shared_storage or make_storage(skind, store)), runner_backend=B4, max_workers=2, context=ctx)
            try:
                res4 = lab4.run_tasks([b4.inst(n) for n in names], bust_cache=True, disable_progress=True, disable_top=True)
            except BaseException as ex:   # noqa
                rep.inconclusive(f'bust_cache run raised {type(ex).__name__}', wit)
                res4 = None
            if res4 is not None:
                full4 = {t.name: v for t, v in res4.items()}
                meta4 = {n: b4.canon[n].result_meta for n in names}
                engine.write_plan(ctl, 4, shapes)
                pre = len(events.read_events(ctl))
                lab5 = labtech.Lab(storage=(shared_storage or make_storage(skind, store)), runner_backend=B5, max_workers=2, context=ctx)
                old = [t for t in req1 if rng.random() < 0.7] or req1[:1]
                try:
                    res5 = lab5.run_tasks(old, disable_progress=True, disable_top=True)
                except BaseException as ex:   # noqa
                    rep.violation(f'reuse-run-raised:{type(ex).__name__}', f'cache hit with reused instances raised {ex}', wit)
                    res5 = {}
                if [e for e in events.read_events(ctl)[pre:] if e['k'] == 'start']:
                    rep.violation('cache-hit-executed', f'reused instances: run() called again under {B5}', wit)
                for t, v in res5.items():
                    rep.count('reused_instance_hits')
                    if v != full4[t.name]:
                        rep.violation('hit-value-differs', f'{t.name} (reused instance after bust_cache): got '
                                      f'{str(v)[:100]}, stored {str(full4[t.name])[:100]}', wit)
                    if t.result_meta != meta4[t.name]:
                        rep.violation('hit-meta-stale', f'{t.name}: a reused instance hit the cache ({B5}) after the entry was '
                                      f'replaced under {B4}; result_meta is {t.result_meta}, the stored entry records '
                                      f'{meta4[t.name]} (the overwritten execution had {meta1[t.name]})', wit)
        rep.case([json.dumps(spec, sort_keys=True), B1, B2, B3, skind], nloaded >= 2)
        rep.seen('backend_triples', f'{B1}>{B2}>{B3}')
        rep.count('big_results', sum(1 for s in shapes.values() if s['shape'] == 'big'))
        if len(rep.samples) < 2:
            rep.sample({'tasks': {n: [t['type'], shapes[n]['shape']] for n, t in spec['tasks'].items()},
                        'backends': [B1, B2, B3], 'second_requested': req_names2, 'third_requested': req3,
                        'storage': skind})
    finally:
        import shutil
        engine.reap_children()
        shutil.rmtree(ctl, ignore_errors=True)


def script_case(rep, b1, b2):
    """Task types defined in the running script (__main__): first run under b1, second under b2."""
    import json
    import os
    import shutil
    import subprocess
    import sys
    import tempfile
    d = tempfile.mkdtemp(prefix='vlab-c06s-')
    try:
        script = os.path.join(os.path.dirname(os.path.dirname(os.path.abspath(__file__))), 'c06script.py')
        outp = os.path.join(d, 'report.json')
        env = dict(os.environ, VLAB_C06_COUNTER=os.path.join(d, 'count.txt'))
        errp = os.path.join(d, 'stderr.txt')
        try:
            with open(errp, 'wb') as ef:     # never a pipe: leftover manager processes would keep it open
                p = subprocess.Popen([sys.executable, script, os.path.join(d, 'store'), b1, b2, outp], env=env, cwd=d,
                                     stdout=subprocess.DEVNULL, stderr=ef, stdin=subprocess.DEVNULL, start_new_session=True)
                try:
                    p.wait(timeout=180)
                finally:
                    try:
                        os.killpg(p.pid, 9)
                    except OSError:
                        pass
        except subprocess.TimeoutExpired:
            rep.inconclusive(f'script-defined tasks {b1}>{b2}: timed out')
            return
        wit = {'script': 'vlab/c06script.py', 'backends': [b1, b2]}
        if not os.path.exists(outp):
            rep.violation('script-tasks-run-failed', f'script-defined tasks, {b1} then {b2}: the script failed: '
                          f'{open(errp, errors="replace").read()[-600:]}', wit)
            return
        x = json.load(open(outp))
        rep.count('script_defined_task_cases')
        rep.seen('script_backend_pairs', f'{b1}>{b2}')
        if not all(x['cached_after_first']):
            rep.violation('executed-but-not-cached', f'script-defined tasks ({b1}): is_cached after a successful run: '
                          f'{x["cached_after_first"]}', wit)
        if x['n2'] != x['n1']:
            rep.violation('cache-hit-executed', f'script-defined tasks: second run ({b2}) executed {x["n2"] - x["n1"]} '
                          f'task(s) again after a first run under {b1}', wit)
        if x['values2'] != x['values1'] or None in x['values1']:
            rep.violation('hit-value-differs', f'script-defined tasks {b1}>{b2}: values {x["values2"]} vs first run '
                          f'{x["values1"]}', wit)
        if x['metas2'] != x['metas1'] or None in x['metas1']:
            rep.violation('hit-meta-differs', f'script-defined tasks {b1}>{b2}: result_meta differs: {x["metas2"]} vs '
                          f'{x["metas1"]}', wit)
        if not all(x.get('listed_matches') or [False]):
            rep.violation('not-cached-in-new-process', f'script-defined tasks: cached_tasks returns no task equal to '
                          f'some original: {x.get("listed_matches")}', wit)
        elif 'n3' in x:
            rep.count('script_runs_of_tasks_returned_by_cached_tasks')
            if x['n3'] != x['n2']:
                rep.violation('cache-hit-executed', f'script-defined tasks: running the tasks returned by cached_tasks '
                              f'({b2}) executed {x["n3"] - x["n2"]} task(s) again; keys (listed, original): {x["keys3"]}', wit)
            if x['values3'] != x['values1']:
                rep.violation('hit-value-differs', f'script-defined tasks, tasks from cached_tasks: {x["values3"]} vs '
                              f'{x["values1"]}', wit)
            if x['metas3'] != x['metas1']:
                rep.violation('hit-meta-differs', f'script-defined tasks, tasks from cached_tasks: result_meta '
                              f'{x["metas3"]} vs stored {x["metas1"]}', wit)
        if x['listed'] != 5:
            rep.violation('not-cached-in-new-process', f'script-defined tasks: cached_tasks lists {x["listed"]} of 5 '
                          f'entries', wit)
    finally:
        shutil.rmtree(d, ignore_errors=True)


def run_shard(rep):
    from vlab.dagcommon import scenario_rng
    cfg = META['tiers'][rep.tier]
    pairs = [(a, b) for a in ('serial', 'fork', 'spawn') for b in ('serial', 'fork', 'spawn')]
    for i in range(rep.shard, len(pairs) * (1 if rep.tier == 'quick' else 4), rep.nshards):
        script_case(rep, *pairs[i % len(pairs)])
        rep.case(['script', pairs[i % len(pairs)], i], True)
    rep.require('hits_compared', 300)
    rep.require('metas_compared', 300)
    rep.require('reused_instance_hits', 100)
    rep.require('script_defined_task_cases', 6)
    for j in range(rep.shard, cfg['n'], rep.nshards):
        if rep.expired():
            rep.count('skipped_for_time')
            continue
        one(rep, scenario_rng(rep.seed, 'C06', j), j)


def replay(rep, wit):
    from vlab.dagcommon import scenario_rng
    rep.case('a', True)
    rep.case('b', True)
    job = wit['witness'].get('job')
    if not job:
        rep.inconclusive('witness without job id: rerun with VERIF_SEED=<seed> python -m vlab.check C06')
        return
    one(rep, scenario_rng(job['seed'], 'C06', job['j']), job['j'])
