"""C03 - each distinct task runs at most once, and only if its result is needed."""

META = {
    'level': 'exploration',
    'rule': ('(Plus, per shard, a seeded run/bust/uncache history over task types defined in a running script - module __main__, __mp_main__ in spawned workers - with its own plan model: executions counted through a log file.) Random DAG specs with heavy identity duplication (each reference may be a fresh equal instance), '
             'random pre-cached subsets (for DAGs of <= 6 tasks in the thorough tier: every subset), requested '
             'subsets, bust_cache, under sim/serial/fork; oracle = plan model (closure with cache cut-offs) against '
             'start events (multiset == executed set), recorded storage opens of data files (== loaded set), '
             'submit calls (each needed task once, use_cache iff loaded) and result_meta of every instance reachable '
             'by the harness walk. Distinct by (DAG, requested, cached subset, config, build seed); non-trivial when '
             '>= 1 task was loaded or duplicated and >= 2 tasks completed.'),
    'assumptions': ['storage recorder = LocalStorage subclass logging every operation (public Storage extension)',
                    'no failing tasks (C10 domain)'],
    'tiers': {
        'quick': {'shards': 16, 'budget_s': 40, 'n_sim': 2400, 'n_real': 200},
        'thorough': {'shards': 16, 'budget_s': 300, 'n_sim': 40000, 'n_real': 2400, 'n_exhaustive_specs': 400},
    },
}


def make_scn(rng, real):
    from vlab.dagcommon import gen_dag_scenario
    backend = rng.choice(['serial', 'serial', 'fork', 'spawn']) if real else 'sim'
    scn = gen_dag_scenario(rng, backend=backend, nmax=rng.choice([4, 6, 9]), gated=False)
    scn['storage'] = 'rec'
    scn['fresh_prob'] = rng.choice([0.0, 0.5, 1.0, 1.0])
    scn.pop('free_sleep', None)
    names = list(scn['spec']['tasks'])
    if rng.random() < 0.8:
        scn['pre'] = [n for n in names if rng.random() < 0.5]
    if rng.random() < 0.3:
        # the same Lab then executes the same task objects again (bust_cache): afterwards every instance must carry
        # the outcome of THAT execution
        scn['second_run'] = {'failing': {}}
    return scn


def judge(rep, scn, out):
    from vlab import oracles
    from vlab.props.dagprop import report_bad
    sec = getattr(out, 'second', None)
    if sec:
        out.trace.calls = out.trace.calls[:len(out.trace.calls) - len(sec['calls'])]
        rep.count('second_calls_on_the_same_task_objects')
    bad, ninst, nloads = oracles.c03(scn, out)
    E, L = oracles.planned(scn, out)
    rep.count('instances_checked', ninst)
    rep.count('loads_observed', nloads or 0)
    rep.count('executions_observed', sum(1 for e in out.events if e['k'] == 'start' and e.get('gen') == 1))
    rep.count('duplicate_instances', max(0, len(out.built.instances) - len(out.built.canon)))
    rep.seen('cached_subsets', sorted(out.cached_before))
    if out.exc is not None:
        rep.foreign[f'run_tasks raised {type(out.exc).__name__}'] += 1
        return False
    report_bad(rep, scn, bad)
    ny = sum(1 for c in out.trace.calls if c['op'] == 'yield')
    return ny >= 2 and (len(L) >= 1 or len(out.built.instances) > len(out.built.canon))


def exhaustive_subsets(rep, n_specs):
    """Every pre-cached subset (2^n) of small DAGs, sim backend."""
    import itertools
    from vlab import engine
    from vlab.dagcommon import gen_dag_scenario, scenario_rng, scn_key
    from vlab.model import cacheable
    for j in range(rep.shard, n_specs, rep.nshards):
        if rep.expired():
            rep.count('skipped_for_time')
            return
        rng = scenario_rng(rep.seed, 'C03exh', j)
        base = gen_dag_scenario(rng, backend='sim', nmax=rng.choice([3, 4, 5]), gated=False, precache=False,
                                shape=rng.choice(['diamond', 'layered', 'chain', 'fanin', 'mix']))
        base['storage'] = 'rec'
        base['fresh_prob'] = rng.choice([0.0, 1.0])
        names = [n for n in base['spec']['tasks'] if cacheable(base['spec'], n)][:6]
        for r in range(len(names) + 1):
            for sub in itertools.combinations(names, r):
                scn = dict(base, pre=list(sub), sched_seed=rng.randrange(1 << 30))
                out = engine.run_dag(scn)
                if getattr(out, 'aborted', None):
                    rep.inconclusive(f'harness abort: {out.aborted[:100]}', {'scenario': scn})
                    continue
                rep.case(scn_key(scn), judge(rep, scn, out))
                rep.count('exhaustive_subset_runs')
        rep.count('specs_with_all_cached_subsets')


def mainscript_case(rep, backend, seed):
    """Task types defined in the running script (__main__; __mp_main__ in a spawned worker): over a seeded history of
    runs on a partially warm cache, exactly the tasks the plan model names are executed - cached ones are loaded."""
    from vlab.mainscript_run import run_mainscript
    wit = {'mainscript': [backend, seed]}
    st, x = run_mainscript(backend, seed)
    if st == 'timeout':
        rep.inconclusive(f'main-script history ({backend}, seed {seed}): timed out', wit)
        return
    if st == 'failed':
        rep.violation('script-tasks-run-failed', f'main-script history ({backend}): the script failed: {x}', wit)
        return
    rep.count('mainscript_histories')
    rep.count('mainscript_executions_observed', x['obs']['executions'])
    rep.case(['mainscript', backend, seed], sum(1 for o in x['obs']['ops'] if o[0] == 'run') >= 2)
    for key, msg in x['bad']:
        if key in ('executed-set-differs', 'entry-lost'):
            rep.violation('unneeded-execution' if key == 'executed-set-differs' else 'executed-but-not-cached',
                          f'task types defined in the main script ({backend}): {msg}', wit)
            break


def run_shard(rep):
    from vlab.props.dagprop import drive
    cfg = META['tiers'][rep.tier]
    rep.require('loads_observed', 100)
    rep.require('instances_checked', 500)
    rep.require('mainscript_histories', 10)
    rep.require('second_calls_on_the_same_task_objects', 50)
    for r in range(1 if rep.tier == 'quick' else 3):
        mainscript_case(rep, ['spawn', 'fork', 'spawn', 'serial'][(rep.shard + r) % 4], rep.seed * 1000 + 500 + rep.shard * 10 + r)
    exhaustive_subsets(rep, cfg.get('n_exhaustive_specs', 16))
    drive(rep, 'C03', make_scn=make_scn, judge=judge, n_sim=cfg['n_sim'], n_real=cfg['n_real'])


def replay(rep, wit):
    from vlab.props.dagprop import replay_with
    if 'mainscript' in wit['witness']:
        rep.case('a', True)
        rep.case('b', True)
        mainscript_case(rep, *wit['witness']['mainscript'])
        return
    replay_with(rep, wit, judge)
