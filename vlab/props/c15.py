"""C15 - tasks are immutable values with consistent equality, hashing and copying."""

META = {
    'level': 'exploration',
    'rule': ('Seeded parameter trees over the supported value grammar (depth <= 4) and the same trees with one '
             'unsupported value (set, bytes, object, complex, function, type, non-string dict key ...) planted at a '
             'random depth, for task types {VA, VB, VAX, tasks_alt.VA, VJ, VP(post_init derives an attribute), VS(post_init rewrites a parameter), VU(underscore-prefixed parameter)}. Algebraic laws checked per '
             'tree against the harness\'s own normaliser/identity: fields normalised (no list/dict anywhere), equal '
             '+ equal hash for list<->tuple / dict<->frozendict re-spellings, unequal across types, frozen, pickle '
             'round trip under every protocol and a real spawn-process crossing (equal, same key, same dependencies '
             'by harness walk and get_direct_dependencies, post_init-derived attribute present, no results map, no '
             'context, no _result), accepted by the Serializer and the dependency search; unsupported => TaskError '
             'and nothing else. Distinct by canonical identity (+ planted kind/depth); non-trivial when the tree has '
             'a container or nested task.'),
    'assumptions': ['NaN excluded (equality undefined)', 'protocols 0..pickle.HIGHEST_PROTOCOL'],
    'tiers': {
        'quick': {'shards': 16, 'budget_s': 35, 'n_base': 24000, 'n_spawn_batches': 16},
        'thorough': {'shards': 16, 'budget_s': 240, 'n_base': 400000, 'n_spawn_batches': 64},
    },
}


def _child(conn):
    """Runs in a freshly spawned interpreter: receives pickled tasks, reports what it sees."""
    import pickle
    from vlab.body import walk_deps
    from labtech.tasks import get_direct_dependencies
    out = []
    blobs = conn.recv()
    for blob in blobs:
        try:
            t = pickle.loads(blob)
            out.append({'ok': True, 'key': t.cache_key, 'repr': repr(t), 'derived': repr(getattr(t, 'derived', '<absent>')),
                        'rmap': repr(getattr(t, '_results_map', None)), 'ctx': repr(getattr(t, 'context', None)),
                        'has_result': hasattr(t, '_result'),
                        'deps_walk': [d.cache_key for d in walk_deps(t)],
                        'deps_lt': [d.cache_key for d in get_direct_dependencies(t)],
                        'hash_eq_rebuild': True})
        except BaseException as ex:   # noqa
            out.append({'ok': False, 'err': f'{type(ex).__name__}: {ex}'})
    conn.send(out)
    conn.close()


def check_scalar_subclass(rep, base, m, c, psub, q, wit):
    """A value of a subclass of a supported scalar type is either rejected by construction (TaskError) or it is a
    parameter value like any other: the task equals the one built from the equal plain scalars, and everything
    that works for that one (hash, serializer, dependency search, pickled copies) works for it."""
    import dataclasses
    import json
    import pickle
    from labtech.exceptions import TaskError
    from labtech.serialization import Serializer
    from labtech.tasks import find_tasks_in_param, get_direct_dependencies
    from vlab.props.c07 import build
    try:
        t = build(m, c, psub, q)
    except TaskError:
        rep.count('scalar_subclass_rejected')
        return
    except BaseException as ex:   # noqa
        rep.violation('unsupported-wrong-exception', f'scalar subclass value: construction raised '
                      f'{type(ex).__name__}: {ex} instead of TaskError', wit)
        return
    rep.count('scalar_subclass_accepted')
    if '\\u0000' in json.dumps(psub):
        rep.count('dict_keys_of_a_str_subtype_accepted')
    if t.cache_key != base.cache_key:
        rep.violation('equal-parameters-unequal-tasks', f'{t!r} and {base!r} are built from equal parameters but have '
                      f'different cache keys', wit)
    if t != base or hash(t) != hash(base):
        rep.violation('equal-parameters-unequal-tasks', f'{t!r} != {base!r} (or hashes differ) although the '
                      f'parameters are equal', wit)
    try:
        Serializer().serialize_task(t)
        for f in dataclasses.fields(t):
            find_tasks_in_param(getattr(t, f.name))
        deps = [d.cache_key for d in get_direct_dependencies(t)]
    except BaseException as ex:   # noqa
        rep.violation('accepted-but-unserializable', f'{t!r} (scalar subclass values) was accepted by construction, '
                      f'then: {type(ex).__name__}: {ex}', wit)
        return
    if deps != [d.cache_key for d in get_direct_dependencies(base)]:
        rep.violation('copy-deps-differ', f'{t!r}: other dependencies than the task built from plain scalars', wit)
    for proto in (min(__import__('vlab.valgen', fromlist=['x']).pickle_protocols(t)), pickle.HIGHEST_PROTOCOL):
        try:
            cp = pickle.loads(pickle.dumps(t, protocol=proto))
            cdeps = [d.cache_key for d in get_direct_dependencies(cp)]
        except BaseException as ex:   # noqa
            rep.violation('pickle-fails', f'scalar subclass values, protocol {proto}: {type(ex).__name__}: {ex}', wit)
            continue
        if cp != t or hash(cp) != hash(t) or cp.cache_key != t.cache_key:
            rep.violation('copy-not-equal', f'scalar subclass values, protocol {proto}: copy {cp!r} != {t!r}', wit)
        if cdeps != deps:
            rep.violation('copy-deps-differ', f'scalar subclass values, protocol {proto}: get_direct_dependencies differs', wit)


def check_copy(rep, base, copy, how, wit, derived_expected):
    from vlab.body import walk_deps
    from labtech.tasks import get_direct_dependencies
    if copy != base or hash(copy) != hash(base):
        rep.violation('copy-not-equal', f'{how}: copy {copy!r} != original {base!r} (or hash differs)', wit)
    if copy.cache_key != base.cache_key:
        rep.violation('copy-key-differs', f'{how}: cache_key {copy.cache_key} != {base.cache_key}', wit)
    if [d.cache_key for d in walk_deps(copy)] != [d.cache_key for d in walk_deps(base)]:
        rep.violation('copy-deps-differ', f'{how}: harness walk finds other dependencies', wit)
    if [d.cache_key for d in get_direct_dependencies(copy)] != [d.cache_key for d in get_direct_dependencies(base)]:
        rep.violation('copy-deps-differ', f'{how}: get_direct_dependencies differs', wit)
    if getattr(copy, '_results_map', None) is not None:
        rep.violation('copy-carries-results', f'{how}: copy carries a results map', wit)
    if getattr(copy, 'context', None) is not None:
        rep.violation('copy-carries-context', f'{how}: copy carries context {copy.context!r}', wit)
    if hasattr(copy, '_result'):
        rep.violation('copy-carries-results', f'{how}: copy carries _result', wit)
    if derived_expected is not None:
        if getattr(copy, 'derived', '<absent>') != derived_expected:
            rep.violation('copy-lost-post-init', f'{how}: post_init-derived attribute is '
                          f'{getattr(copy, "derived", "<absent>")!r}, original has {derived_expected!r}', wit)


def run_shard(rep):
    import dataclasses
    import json
    import multiprocessing
    import pickle
    import random
    from labtech.exceptions import TaskError
    from labtech.serialization import Serializer
    from labtech.tasks import find_tasks_in_param
    from labtech.types import ResultMeta, TaskResult
    from vlab import valgen
    from vlab.props.c07 import build
    cfg = META['tiers'][rep.tier]
    rep.require('supported_trees', 1000)
    rep.require('unsupported_trees', 500)
    rep.require('spawn_crossings', 20)
    rep.require('scalar_subclass_accepted', 200)
    ser = Serializer()
    spawn_queue = []
    j = rep.shard
    while j < cfg['n_base'] and not rep.expired():
        rng = random.Random(f'{rep.seed}:C15:{j}')
        j += rep.nshards
        m, c = rng.choice(valgen.TASKS + [['vlab.tasks_core', 'VS'], ['vlab.tasks_core', 'VS']])
        p = valgen.gen_value(rng, rng.choice([1, 2, 3, 4]))
        q = valgen.gen_value(rng, 1) if rng.random() < 0.4 else {'s': None}
        wit = {'module': m, 'cls': c, 'p': p, 'q': q}
        nontrivial = any(k in p for k in ('l', 't', 'd', 'fd', 'task'))
        if rng.random() < 0.3:
            # ---------- unsupported class
            kind = rng.choice(valgen.UNSUPPORTED)
            bad = valgen.plant(rng, p if nontrivial else {'l': [p]}, {'u': kind})
            wit = {'module': m, 'cls': c, 'p': bad, 'q': q, 'planted': kind}
            rep.case(['unsupported', json.dumps(valgen.ident(p)), kind], True)
            rep.count('unsupported_trees')
            rep.count('unsupported_' + kind)
            try:
                t = build(m, c, bad, q)
            except TaskError:
                pass
            except BaseException as ex:   # noqa
                rep.violation('unsupported-wrong-exception', f'planted {kind}: construction raised '
                              f'{type(ex).__name__}: {ex} instead of TaskError', wit)
            else:
                rep.violation('unsupported-accepted', f'planted {kind} accepted: {t!r}', wit)
            continue
        # ---------- supported class
        rep.case(json.dumps(valgen.task_ident(m, c, p, q)), nontrivial)
        rep.count('supported_trees')
        try:
            base = build(m, c, p, q)
        except BaseException as ex:   # noqa
            rep.violation('supported-rejected', f'supported value rejected: {type(ex).__name__}: {ex}', wit)
            continue
        raw_p, raw_q = valgen.realize(p), valgen.realize(q)
        exp_q = valgen.harness_norm(raw_q)
        if c == 'VS' and isinstance(exp_q, str):
            exp_q = exp_q.strip().lower()
        if base.p != valgen.harness_norm(raw_p) or getattr(base, 'q', getattr(base, '_q', None)) != exp_q:
            rep.violation('not-normalised', f'fields {base.p!r} differ from the harness normaliser', wit)
        if not valgen.no_mutable_inside(base):
            rep.violation('mutable-inside', f'list/dict left inside {base!r}', wit)
        try:
            hash(base)
        except TypeError as ex:
            rep.violation('unhashable', f'{base!r}: {ex}', wit)
            continue
        for _ in range(2):
            other = build(m, c, valgen.respell(rng, p), valgen.respell(rng, q))
            rep.count('respell_pairs')
            if other != base or hash(other) != hash(base):
                rep.violation('respelling-unequal', f'{other!r} != {base!r} or hashes differ', wit)
        pe = valgen.python_equal_respell(rng, {'task': [m, c, p, q]})
        if pe is not None:
            other = build(m, c, pe['task'][2], pe['task'][3])
            rep.count('python_equal_respell_pairs')
            if other != base:
                rep.violation('equal-parameters-unequal-tasks', f'{other!r} != {base!r} although the parameters are equal', wit)
            elif hash(other) != hash(base):
                rep.violation('equal-tasks-unequal-hash', f'{other!r} == {base!r} but their hashes differ '
                              f'(a set/dict keyed by tasks treats them as two)', wit)
        for m2, c2 in valgen.TASKS:
            if [m2, c2] != [m, c]:
                u = build(m2, c2, p, q)
                if u == base:
                    rep.violation('equal-across-types', f'{u!r} == {base!r}', wit)
        try:
            object.__getattribute__(base, 'p')
            base.p = 1
        except dataclasses.FrozenInstanceError:
            pass
        else:
            rep.violation('not-frozen', f'assignment to a field succeeded on {base!r}', wit)
        try:
            s = ser.serialize_task(base)
            json.dumps(s)
            for f in dataclasses.fields(base):
                find_tasks_in_param(getattr(base, f.name))
        except BaseException as ex:   # noqa
            rep.violation('accepted-but-unserializable', f'{base!r}: {type(ex).__name__}: {ex}', wit)
        # ---------- equal scalars whose type is a subclass of str / int / float (numpy.float64 and friends)
        psub = valgen.with_scalar_subclasses(rng, p) if rng.random() < 0.25 else None
        if psub is not None:
            wsub = {'module': m, 'cls': c, 'p': psub, 'q': q, 'scalar_subclass': True}
            check_scalar_subclass(rep, base, m, c, psub, q, wsub)
        # give the original a context, a results map and a result_meta: none may travel
        base.set_context({'secret': 'ctx'})
        base._set_results_map({base: TaskResult(value=1, meta=ResultMeta(start=None, duration=None))})
        derived = getattr(base, 'derived', None) if c in ('VP', 'VS') else None
        for proto in valgen.pickle_protocols(base):
            try:
                cp = pickle.loads(pickle.dumps(base, protocol=proto))
            except BaseException as ex:   # noqa
                rep.violation('pickle-fails', f'protocol {proto}: {type(ex).__name__}: {ex}', wit)
                continue
            rep.count('pickle_roundtrips')
            check_copy(rep, base, cp, f'pickle protocol {proto}', wit, derived)
        if len(spawn_queue) < 40 and (c in ('VP', 'VS') or rng.random() < 0.05):
            spawn_queue.append((wit, base))
        if len(rep.samples) < 2 and nontrivial:
            rep.sample({'type': f'{m}.{c}', 'p': p, 'q': q, 'normalised': repr(base)[:300]})
    # ---------- real process-boundary crossing (fresh spawned interpreter)
    nb = max(1, cfg['n_spawn_batches'] // rep.nshards)
    ctx = multiprocessing.get_context('spawn')
    per = max(1, len(spawn_queue) // nb)
    for b in range(nb):
        batch = spawn_queue[b * per:(b + 1) * per]
        if not batch:
            break
        a, bconn = ctx.Pipe()
        proc = ctx.Process(target=_child, args=(bconn,))
        proc.start()
        a.send([pickle.dumps(t) for _, t in batch])
        if not a.poll(60):
            rep.inconclusive('spawn child did not answer')
            proc.kill()
            continue
        res = a.recv()
        proc.join(10)
        for (wit, t), r in zip(batch, res):
            rep.count('spawn_crossings')
            from vlab.body import walk_deps
            if not r['ok']:
                rep.violation('spawn-crossing-fails', r['err'], wit)
                continue
            if r['key'] != t.cache_key or r['repr'] != repr(t):
                rep.violation('copy-not-equal', f'spawn crossing: child sees {r["repr"]} key {r["key"]}', wit)
            if r['deps_walk'] != [d.cache_key for d in walk_deps(t)] or \
                    r['deps_lt'] != [d.cache_key for d in __import__('labtech').tasks.get_direct_dependencies(t)]:
                rep.violation('copy-deps-differ', 'spawn crossing: dependencies differ in the child', wit)
            if r['rmap'] != 'None' or r['ctx'] != 'None' or r['has_result']:
                rep.violation('copy-carries-results', f'spawn crossing: rmap={r["rmap"]} ctx={r["ctx"]}', wit)
            if type(t).__name__ in ('VP', 'VS') and r['derived'] != repr(t.derived):
                rep.violation('copy-lost-post-init', f'spawn crossing: derived attribute in the child is {r["derived"]}', wit)


def replay(rep, wit):
    import pickle
    from vlab.props.c07 import build
    w = wit['witness']
    rep.case('a', True)
    rep.case('b', True)
    from labtech.exceptions import TaskError
    if w.get('scalar_subclass'):
        from vlab import valgen
        base = build(w['module'], w['cls'], valgen.plain_scalars(w['p']), w['q'])
        check_scalar_subclass(rep, base, w['module'], w['cls'], w['p'], w['q'], w)
        return
    try:
        t = build(w['module'], w['cls'], w['p'], w['q'])
    except TaskError:
        return
    except BaseException as ex:   # noqa
        rep.violation('unsupported-wrong-exception', repr(ex), w)
        return
    if 'planted' in w:
        rep.violation('unsupported-accepted', repr(t), w)
        return
    derived = getattr(t, 'derived', None) if w['cls'] == 'VP' else None
    for proto in __import__('vlab.valgen', fromlist=['x']).pickle_protocols(t):
        check_copy(rep, t, pickle.loads(pickle.dumps(t, protocol=proto)), f'pickle {proto}', w, derived)
