"""C10 - one task's failure never disturbs unrelated tasks."""

META = {
    'level': 'fault_enumeration',
    'rule': ('DAGs of <= 7 tasks x failing subsets (sim: every subset of small DAGs in the thorough tier, sampled '
             'otherwise; serial/fork/spawn: sampled, gate-controlled completion orders) x fault kinds {ValueError, '
             'exception whose pickle round trip fails, SystemExit, BaseException subclass, os._exit(3), os._exit(0), SIGKILL of self} '
             'x continue_on_failure in {True, False}; failing tasks may be requested or dependency-only. Oracle = '
             'failure-closure (taint) model: with continue_on_failure=True run_tasks returns, untainted tasks are '
             'executed once, cached and returned with reference values, tainted ones are absent from the result and '
             'from the cache; with False run_tasks raises LabError whose __cause__ is a failing task\'s own exception '
             '(TaskDiedError for deaths) and the launch ledger/event log show no launch or start after the raise '
             '(grace window). Distinct by (DAG, failing set+kinds, config, schedule seed); non-trivial when >= 1 task '
             'fails and >= 1 untainted task exists.'),
    'assumptions': ['an exception that cannot be unpickled reaches the caller as TaskDiedError on process backends '
                    '(accepted as the task\'s own failure)',
                    'no bust_cache together with failures (an older entry of a failed task would remain)'],
    'tiers': {
        'quick': {'shards': 16, 'budget_s': 45, 'n_sim': 2400, 'n_real': 260},
        'thorough': {'shards': 16, 'budget_s': 330, 'n_sim': 40000, 'n_real': 3000, 'n_exhaustive_specs': 400},
    },
}

KINDS = {
    'sim': ('raise:ValueError', 'raise:Multi', 'raise:SystemExit', 'raise:Base', 'raise:Chained', 'raise:Context', 'kill', 'exit', 'exit0'),
    'serial': ('raise:ValueError', 'raise:Multi', 'raise:SystemExit', 'raise:Base', 'raise:Chained', 'raise:Context'),
    'fork': ('raise:ValueError', 'raise:Multi', 'raise:SystemExit', 'raise:Base', 'raise:Chained', 'raise:Context', 'kill', 'exit', 'exit0'),
    'spawn': ('raise:ValueError', 'raise:Multi', 'raise:SystemExit', 'raise:Base', 'raise:Chained', 'raise:Context', 'kill', 'exit', 'exit0'),
}
CAUSES = {
    'raise:ValueError': {'ValueError'}, 'raise:Multi': {'MultiArgError', 'TaskDiedError'},
    'raise:SystemExit': {'SystemExit'}, 'raise:Base': {'PlannedBase'},
    'raise:Chained': {'ChainedError'}, 'raise:Context': {'ChainedError'},
    'kill': {'TaskDiedError'}, 'exit': {'TaskDiedError'}, 'exit0': {'TaskDiedError'},
}


def make_scn(rng, real, failing=None):
    from vlab.dagcommon import gen_dag_scenario
    backend = rng.choice(['serial', 'fork', 'fork', 'spawn']) if real else 'sim'
    scn = gen_dag_scenario(rng, backend=backend, nmax=rng.choice([4, 6, 7]), fresh=rng.random() < 0.3,
                           shape=rng.choice([None, 'diamond', 'fanin', 'layered', 'chain', 'fanout']))
    scn['bust'] = False
    names = list(scn['spec']['tasks'])
    k = rng.choice([1, 1, 2, 2, 3, len(names)])
    fl = rng.sample(names, min(k, len(names)))
    scn['failing'] = {n: rng.choice(KINDS[backend]) for n in fl}
    scn['cof'] = rng.random() < 0.7
    scn['watchdog_s'] = 40      # tasks take milliseconds; a run that has not returned by then, with no worker alive, hangs
    if not scn['cof']:
        scn['grace'] = 0.6 if backend in ('fork', 'spawn') else 0.0
    if backend in ('fork', 'spawn'):
        scn['gated'] = rng.random() < 0.7
        if not scn['gated']:
            scn['free_sleep'] = [0.0, 0.01, 0.03]
    sim_deaths = backend == 'sim' and any(a in ('kill', 'exit', 'exit0') for a in scn['failing'].values())
    if scn['cof'] and not scn.get('gated') and not sim_deaths and rng.random() < 0.3:
        # the same Lab runs the same task objects once more (bust_cache); now OTHER tasks fail - ones that succeeded
        # (and whose results were read by their dependents) in the first call
        ok1 = [n for n in names if n not in scn['failing']]
        if ok1:
            scn['second_run'] = {'failing': {n: 'raise:ValueError' for n in rng.sample(ok1, min(len(ok1), rng.choice([1, 1, 2])))}}
    return scn


def judge(rep, scn, out):
    from vlab import engine, oracles
    from vlab.model import cacheable, dedup
    from vlab.props.dagprop import report_bad
    spec = scn['spec']
    req = scn.get('requested') or spec['requested']
    sec = getattr(out, 'second', None)
    if sec:
        out.trace.calls = out.trace.calls[:len(out.trace.calls) - len(sec['calls'])]
    E, L = oracles.planned(scn, out)
    failing = {n: a for n, a in scn['failing'].items() if n in E}
    tainted = oracles.tainted_set(scn, out)
    exp, _ = engine.expected_values(scn, out)
    bad = []
    if getattr(out, 'aborted', None):
        bad.append(('never-terminates', f'run_tasks does not terminate: {out.aborted}; failing={failing}'))
        report_bad(rep, scn, bad)
        return True
    starts = {}
    for e in out.events:
        if e['k'] == 'start' and e.get('gen') == 1:
            starts[e['name']] = starts.get(e['name'], 0) + 1
    rep.count('failing_tasks', len(failing))
    rep.count('tainted_tasks', len(tainted))
    for a in failing.values():
        rep.count('fault_' + a)
    if scn.get('cof', True) or not failing:
        if out.exc is not None:
            bad.append((f'raised:{type(out.exc).__name__}@{out.exc_info["where"]}', f'continue_on_failure=True but run_tasks raised '
                        f'{out.exc_info}; failing={failing}'))
        else:
            want = [n for n in dedup(req) if n not in tainted]
            got = [n for n, _ in out.result_list]
            if got != want:
                extra = [n for n in got if n in tainted]
                key = 'value-returned-for-failed-task' if extra else 'untainted-task-missing-from-result'
                bad.append((key, f'result keys {got}, expected {want} (tainted {sorted(tainted)})'))
            for n, v in out.result_list:
                if n not in tainted and tuple(v) != tuple(exp[n]):
                    bad.append(('wrong-value', f'value of untainted {n} is {v}, reference {exp[n]}'))
            rep.count('untainted_values_checked', len(out.result_list))
            simdeaths = {n for n, a in failing.items() if a in ('kill', 'exit', 'exit0')} if scn['backend'] == 'sim' else set()
            for n in E:
                if sec:
                    break       # the storage now shows the outcome of the second call
                if n in tainted:
                    if n in out.cached_after:
                        bad.append(('failed-task-cached', f'{n} failed (or read a failed dependency) but is '
                                    f'reported cached afterwards'))
                else:
                    if starts.get(n, 0) != 1:
                        bad.append(('untainted-not-executed-once', f'untainted {n} executed {starts.get(n, 0)} '
                                    f'times although only {sorted(failing)} fail'))
                    if cacheable(spec, n) and n not in out.cached_after:
                        bad.append(('untainted-not-cached', f'untainted {n} executed but not cached'))
    else:
        if out.exc is None:
            bad.append(('no-raise', f'continue_on_failure=False, {failing} fail, but run_tasks returned normally'))
        elif type(out.exc).__name__ != 'LabError':
            bad.append((f'raised:{type(out.exc).__name__}@{out.exc_info["where"]}', f'continue_on_failure=False: expected LabError, got '
                        f'{out.exc_info}'))
        else:
            cause = out.exc.__cause__
            cname = type(cause).__name__ if cause is not None else None
            ok = False
            for n, a in failing.items():
                if cname in CAUSES[a]:
                    if cname == 'ValueError' and str(cause) != f'planned failure of {n}':
                        continue
                    if cname in ('PlannedBase', 'ChainedError') and cause.args != (n,):
                        continue
                    ok = True
            if not ok:
                bad.append((f'wrong-cause@{out.exc_info["where"]}', f'LabError.__cause__ is {cname}({getattr(cause, "args", None)}), not the own '
                            f'exception of any failing task {failing}; error: {out.exc_info}'))
            late = [e for e in out.ledger if e['t'] > out.t_return]
            late_starts = [e['name'] for e in out.events if e['k'] == 'start' and e['t'] > out.t_return
                           and scn['backend'] == 'serial']
            rep.count('post_raise_windows_observed')
            if late or late_starts:
                bad.append(('started-after-raise', f'tasks launched after run_tasks raised: '
                            f'{[e["name"] for e in late] + late_starts}'))
    if sec:
        from vlab.gen import closure
        from vlab.model import taint
        rep.count('second_calls_with_other_failures')
        E2 = closure(spec, req)
        failing2 = set(scn['second_run']['failing']) & set(E2)
        tainted2 = taint(spec, failing2, set(E2))
        if sec['exc']:
            bad.append((f"raised:{sec['exc'].get('type')}@second-call", f'second run_tasks call (continue_on_failure=True) raised {sec["exc"]}'))
        else:
            got2 = [n for n, _ in sec['result_list']]
            extra = [n for n in got2 if n in tainted2]
            if extra:
                bad.append(('value-returned-for-failed-task', f'second run_tasks call on the same task objects: {sorted(failing2)} '
                            f'fail now, yet values were returned for {extra}, which fail or read a failed '
                            f"dependency's result (they succeeded in the first call)"))
            missing = [n for n in dedup(req) if n not in tainted2 and n not in got2]
            if missing:
                bad.append(('untainted-task-missing-from-result', f'second call: {missing} missing (tainted {sorted(tainted2)})'))
            rep.count('second_call_tainted_tasks', len(tainted2))
    report_bad(rep, scn, bad)
    return bool(failing) and len(E - tainted) >= 1


def exhaustive_failing_subsets(rep, n_specs):
    """Every failing subset (2^n - 1) of small DAGs, sim backend, one fault kind per subset."""
    import itertools
    from vlab import engine
    from vlab.dagcommon import gen_dag_scenario, scenario_rng, scn_key
    for j in range(rep.shard, n_specs, rep.nshards):
        if rep.expired():
            rep.count('skipped_for_time')
            return
        rng = scenario_rng(rep.seed, 'C10exh', j)
        base = gen_dag_scenario(rng, backend='sim', nmax=rng.choice([3, 4, 5]), precache=False, fresh=False,
                                shape=rng.choice(['diamond', 'layered', 'chain', 'fanin', 'fanout']))
        base['bust'] = False
        names = list(base['spec']['tasks'])[:6]
        for r in range(1, len(names) + 1):
            for sub in itertools.combinations(names, r):
                scn = dict(base, failing={n: rng.choice(KINDS['sim']) for n in sub}, cof=rng.random() < 0.8,
                           sched_seed=rng.randrange(1 << 30))
                out = engine.run_dag(scn)
                if getattr(out, 'aborted', None) and not out.aborted.startswith('spin'):
                    rep.inconclusive(f'harness abort: {out.aborted[:100]}', {'scenario': scn})
                    continue
                rep.case(scn_key(scn), judge(rep, scn, out))
                rep.count('exhaustive_failing_subset_runs')
        rep.count('specs_with_all_failing_subsets')


def run_shard(rep):
    from vlab.props.dagprop import drive
    cfg = META['tiers'][rep.tier]
    exhaustive_failing_subsets(rep, cfg.get('n_exhaustive_specs', 16))
    rep.require('failing_tasks', 500)
    rep.require('post_raise_windows_observed', 50)
    rep.require('untainted_values_checked', 500)
    rep.require('second_calls_with_other_failures', 50)
    if sum(1 for v in rep.violations if v['key'] == 'never-terminates') >= 2:
        return
    drive(rep, 'C10', make_scn=make_scn, judge=judge, n_sim=cfg['n_sim'], n_real=cfg['n_real'], handles_spin=True)


def replay(rep, wit):
    from vlab.props.dagprop import replay_with
    replay_with(rep, wit, judge)
