"""C12 - a save that fails leaves no entry that looks cached."""

META = {
    'level': 'fault_enumeration',
    'rule': ('Single-fault injection into the save of one victim task (a bystander task is saved normally alongside): '
             '(i) every executed labtech line of the save path (sys.monitoring LINE failpoint, alternately raising an OSError and a BaseException that is not an Exception, armed around '
             'BaseCache.save; a first pass counts the lines, then every k - serial: all k, fork worker: strided '
             'sample in the quick tier, all k in the thorough tier); (ii) storage operations through a '
             'LocalStorage subclass: open of metadata/data fails before or after the file exists, j-th write() of '
             'either file fails (all j), flush fails, close fails; (iii) an object whose pickling raises TypeError or SystemExit (a failure that is not an Exception) / a non-JSON-able object, at depth '
             '0/2/5 of a small or ~300 KiB result (also on an upload-on-close storage provider, where a file only comes into being when its handle is closed, by whomever); x cache format {pickle, json, pickle with a task type whose post_init rewrites a parameter} x {first save, overwrite of an '
             'existing entry via bust_cache} x result shape {small, nested, big} x victim {serial caller, fork '
             'worker}. Oracle on the post-state, asked of the very Lab that ran the failing save (it has looked at the entry before the run) and of a fresh Lab: the victim is absent from the '
             'returned dict; if is_cached or cached_tasks report it, run_tasks must load it and return the old or '
             'the new value; cached_tasks must not raise; the bystander entry stays loadable. Distinct by (fault '
             'point, format, mode, shape, victim); a case counts only if its fault actually fired (event log).'),
    'assumptions': ['line granularity: faults between bytecodes of one line are not enumerated',
                    'storage faults are raised by a LocalStorage subclass (public Storage extension point)'],
    'tiers': {
        'quick': {'shards': 16, 'budget_s': 45, 'fork_stride': 9},
        'thorough': {'shards': 16, 'budget_s': 300, 'fork_stride': 1},
    },
}

SHAPES = ['small', 'nested', 'big']


def base_spec(cache_type):
    return {'shape': 'c12', 'tasks': {
        'b': {'type': 'NA', 'one': None, 'many': [], 'named': None, 'p': 1},
        'v': {'type': cache_type, 'one': None, 'many': [], 'named': None, 'p': (' Mixed Case ' if cache_type == 'NSP' else 2)}},
        'requested': ['v', 'b']}


def run_case(case, rep=None, count_only=False):
    """Returns dict(fired, bad[], n_lines, writes{file: n}, info)."""
    import os
    import shutil
    import labtech
    from vlab import engine, events
    from vlab.body import base_of, combine, ctx_digest
    from vlab.gen import Built
    from vlab.storages import make_storage
    from vlab.tasks_core import TYPES
    spec = base_spec(case['cache'])
    ctl = engine.new_ctl('vlab-c12-')
    store = os.path.join(ctl, 'store')
    engine.quiet_labtech()
    bad = []
    out = {'fired': None, 'bad': bad, 'n_lines': None, 'writes': {}}
    try:
        def lab(backend='serial', cof=True):
            return labtech.Lab(storage=make_storage(case.get('storage', 'faulty'), store), runner_backend=backend, max_workers=2,
                               context={}, continue_on_failure=cof)

        def val(name, gen):
            t = spec['tasks'][name]
            pv = t['p'].strip().lower() if (t['type'] == 'NSP' and isinstance(t['p'], str)) else t['p']
            return combine(t['type'], name, pv, [], ctx_digest({}), gen)
        v0 = None
        if case['mode'] == 'overwrite':
            engine.write_plan(ctl, 0, {'v': {'shape': 'small'}})
            lab().run_tasks([Built(spec).inst('v')], disable_progress=True, disable_top=True)
            v0 = val('v', 0)
        fault = case['fault']
        tplan = {'v': {'shape': case['shape']}}
        default = {}
        if fault['kind'] == 'line':
            tplan['v']['inject'] = {'k': (None if count_only else fault['k']), 'action': fault.get('action', 'raise')}
        elif fault['kind'] == 'storage':
            default['storage_fault'] = {'op': ('count' if count_only else fault['op']), 'j': fault.get('j', 0),
                                        'file': fault.get('file'), 'gen': 1,
                                        'key': Built(spec).inst('v').cache_key}
        elif fault['kind'] == 'unpicklable':
            tplan['v']['shape'] = ('unpicklable-big' if fault.get('big') else 'unpicklable') + \
                ('-sysexit' if fault.get('base') else '') + f":{fault['depth']}"
        engine.write_plan(ctl, 1, tplan, default)
        pre = len(events.read_events(ctl))
        b1 = Built(spec)
        res = None
        exc = None
        # the Lab that suffers the failing save has looked at the entry before (True in overwrite mode, False for a
        # first save) and is asked again afterwards: what it answers must follow what its workers did to the storage
        the_lab = lab(case['backend'])
        if not count_only:
            try:
                seen_before = the_lab.is_cached(Built(spec).inst('v'))
                if seen_before != (case['mode'] == 'overwrite'):
                    bad.append(('pre-state-wrong', f'before the run is_cached(v) is {seen_before} in mode {case["mode"]}'))
                the_lab.cached_tasks([TYPES[case['cache']]])
            except BaseException as ex:   # noqa
                bad.append(('is_cached-raises', f'before the run: {type(ex).__name__}: {ex}'))
        try:
            res = the_lab.run_tasks([b1.inst('v'), b1.inst('b')], bust_cache=(case['mode'] == 'overwrite'),
                                    disable_progress=True, disable_top=True)
        except BaseException as ex:   # noqa
            exc = ex
        evs = events.read_events(ctl)[pre:]
        for e in evs:
            if e['k'] == 'inj':
                out['n_lines'] = e['n']
                out['sites'] = e.get('sites')
                if e.get('fired'):
                    out['fired'] = e['fired']
            elif e['k'] == 'inj-fire':
                out['fired'] = e['site']
            elif e['k'] == 'st-fire':
                out['fired'] = {'file': 'storage', 'func': e['what'], 'line': e['j'], 'text': e['file']}
            elif e['k'] == 'st-count':
                out['writes'][e['file']] = e['writes']
        if fault['kind'] == 'unpicklable':
            out['fired'] = {'file': 'result', 'func': 'unpicklable', 'line': fault['depth'], 'text': case['cache']}
        if count_only:
            return out
        if not out['fired']:
            return out
        v1 = val('v', 1)
        if exc is not None:
            bad.append((f'run-raised:{type(exc).__name__}', f'continue_on_failure=True but run_tasks raised '
                        f'{type(exc).__name__}: {exc}'))
        else:
            names = [t.name for t in res]
            save_completed = False
            if 'v' in names:
                # reported as succeeded although the save raised: only acceptable if nothing was lost
                bad.append(('failed-save-reported-success', f'save of v raised at {out["fired"]} but v is in the result'))
            if 'b' not in names:
                bad.append(('bystander-lost', 'the bystander task is missing from the result'))
        # ---- post state
        import gc
        res = exc = None
        gc.collect()        # handles the failed save left open are closed now at the latest
        engine.write_plan(ctl, 2)
        for which, lab2 in (('the Lab that ran the failing save', the_lab), ('a fresh Lab', lab('serial'))):
            if rep is not None:
                rep.count('post_state_verdicts')
            b2 = Built(spec)
            v = b2.inst('v')
            try:
                reported = lab2.is_cached(v)
            except BaseException as ex:   # noqa
                bad.append(('is_cached-raises', f'is_cached raised {type(ex).__name__}: {ex}'))
                reported = True
            listed = False
            try:
                lst = lab2.cached_tasks([TYPES[case['cache']]])
                listed = any(t == v for t in lst)
            except BaseException as ex:   # noqa
                bad.append(('cached_tasks-raises', f'after the failed save cached_tasks raised {type(ex).__name__}: {ex} '
                            f'(entry state: {fs_signature(store, v.cache_key)})'))
                listed = True
            if reported or listed:
                pre2 = len(events.read_events(ctl))
                try:
                    r2 = lab2.run_tasks([v], disable_progress=True, disable_top=True)
                except BaseException as ex:   # noqa
                    r2 = {}
                got = base_of(r2[v]) if v in r2 else None
                reexec = any(e['k'] == 'start' for e in events.read_events(ctl)[pre2:])
                if got is None or reexec:
                    bad.append(('reported-cached-but-unloadable', f'after a save that failed at {out["fired"]} the entry '
                                f'is reported by {which} (is_cached={reported}, cached_tasks={listed}) but loading it fails; '
                                f'entry state: {fs_signature(store, v.cache_key)}'))
                elif tuple(got) not in {tuple(v1)} | ({tuple(v0)} if v0 else set()):
                    bad.append(('reported-cached-mis-load', f'entry loads {got}, neither old {v0} nor new {v1}'))
                else:
                    if rep is not None:
                        rep.count('entries_still_loadable')
            else:
                if rep is not None:
                    rep.count('entries_not_reported')
            bb = b2.inst('b')
            extra = sorted(set(os.listdir(store)) - {v.cache_key, bb.cache_key, '.gitignore'})
            if extra:
                bad.append(('foreign-entry-touched', f'after the failed save the storage holds entries that belong to neither task: {extra}'))
            if not lab2.is_cached(bb):
                bad.append(('bystander-entry-lost', 'bystander entry no longer cached'))
            else:
                r3 = lab2.run_tasks([bb], disable_progress=True, disable_top=True)
                if bb not in r3 or tuple(base_of(r3[bb])) != tuple(val('b', 1)):
                    bad.append(('bystander-entry-damaged', f'bystander loads {r3.get(bb)}'))
            if lab2 is the_lab and case['backend'] != 'serial':
                engine.reap_children()
        return out
    finally:
        engine.reap_children()
        shutil.rmtree(ctl, ignore_errors=True)


def fs_signature(store, key):
    import json
    import os
    d = os.path.join(store, key)
    if not os.path.isdir(d):
        return 'no-dir'
    sig = []
    for fn in sorted(os.listdir(d)):
        p = os.path.join(d, fn)
        size = os.path.getsize(p)
        state = 'empty' if size == 0 else 'nonempty'
        if fn == 'metadata.json' and size:
            try:
                json.load(open(p))
                state = 'complete'
            except ValueError:
                state = 'partial'
        sig.append(f'{fn}={state}')
    return 'dir[' + ','.join(sig) + ']'


def enumerate_cases(rep, stride_fork):
    """All fault points; the count pass runs per configuration."""
    cases = []
    for cache in ('NS', 'NSJ', 'NSP'):
        for mode in ('first', 'overwrite'):
            for shape in (SHAPES if cache != 'NSP' else ['small']):
                if cache == 'NSJ' and shape == 'big':
                    continue
                for backend in ('serial', 'fork'):
                    cfg = {'cache': cache, 'mode': mode, 'shape': shape, 'backend': backend}
                    if backend == 'serial' or shape == 'small':
                        c = run_case(dict(cfg, fault={'kind': 'line', 'k': None}), count_only=True)
                        n = c['n_lines'] or 0
                        rep.count('line_points_found', n)
                        for s in c.get('sites') or ():
                            rep.seen('save_path_functions', s)
                        ks = range(1, n + 1) if backend == 'serial' else range(1 + (hash((cache, mode)) % stride_fork), n + 1, stride_fork)
                        for k in ks:
                            # every second point with a failure that is not an Exception (SystemExit-like)
                            cases.append(dict(cfg, fault={'kind': 'line', 'k': k,
                                                          'action': ('raise-base' if k % 2 else 'raise')}))
                    if backend == 'serial' or (shape == 'small' and mode == 'first'):
                        c = run_case(dict(cfg, fault={'kind': 'storage', 'op': 'count'}), count_only=True)
                        for fn, nw in c['writes'].items():
                            js = range(1, nw + 1) if nw <= 40 else sorted(set(list(range(1, 12)) + list(range(12, nw + 1, max(1, nw // 20))) + [nw]))
                            for j in js:
                                cases.append(dict(cfg, fault={'kind': 'storage', 'op': 'write', 'j': j, 'file': fn}))
                            for op in ('open', 'open-after-mkdir', 'flush', 'close'):
                                cases.append(dict(cfg, fault={'kind': 'storage', 'op': op, 'file': fn}))
                if shape == 'small':
                    for backend in ('serial', 'fork'):
                        for depth in (0, 2, 5):
                            for big in (False, True):
                                for base in ((False, True) if cache == 'NS' else (False,)):
                                    cases.append({'cache': cache, 'mode': mode, 'shape': shape, 'backend': backend,
                                                  'fault': {'kind': 'unpicklable', 'depth': depth, 'big': big, 'base': base}})
                                    if depth != 2:
                                        # ... and on a storage provider whose files only come into being when their
                                        # handle is closed (object-store style)
                                        cases.append({'cache': cache, 'mode': mode, 'shape': shape, 'backend': backend,
                                                      'storage': 'upload',
                                                      'fault': {'kind': 'unpicklable', 'depth': depth, 'big': big, 'base': base}})
    return cases


def run_shard(rep):
    import json
    cfg = META['tiers'][rep.tier]
    rep.require('faults_fired', 300)
    cases = enumerate_cases(rep, cfg['fork_stride'])
    rep.count('fault_points_enumerated', len(cases) if rep.shard == 0 else 0)
    done = True
    for case in cases[rep.shard::rep.nshards]:
        if rep.expired():
            rep.count('skipped_for_time')
            done = False
            continue
        r = run_case(case, rep)
        if not r['fired']:
            rep.count('fault_not_reached')
            continue
        rep.case(json.dumps(case, sort_keys=True), True)
        rep.count('faults_fired')
        rep.count('fault_' + case['fault']['kind'] + '_' + case['backend'])
        rep.seen('injection_sites', f"{r['fired'].get('file')}:{r['fired'].get('func')}")
        seen = set()
        for key, msg in r['bad']:
            k = f"{key}/{case['mode']}"
            if k not in seen:
                seen.add(k)
                rep.violation(k, f'{msg} :: case {case}', {'case': case})
        if len(rep.samples) < 3:
            rep.sample({'case': case, 'fired_at': r['fired']})
    rep.exhaustive = done


def replay(rep, wit):
    rep.case('a', True)
    rep.case('b', True)
    case = wit['witness']['case']
    r = run_case(case, rep)
    for key, msg in r['bad']:
        rep.violation(f"{key}/{case['mode']}", msg, wit['witness'])
