"""C20 - the task diagram shows every reachable type and relationship."""

META = {
    'level': 'exploration',
    'rule': ('Random task graphs over 9 diagram task types (two declared cache=None, one also max_parallel, one container-like type whose instances can be falsy) (scalar, single-task, list/tuple/dict and nested-collection '
             'parameters, depth <= 4, 1-4 top-level tasks; a fifth of the references reuse an already generated task, i.e. the very same task object appears in several places); build_task_diagram output is parsed back (class blocks, '
             'field lines, run line, arrows with "many" flag) and compared with the harness\'s own traversal of the '
             'generated graph description: multiset of class blocks == reachable types (one each), field lines == '
             'harness table in order, run line == annotated return, arrow set == {(dependent type, parameter, '
             'dependency type)} each once with many <=> some reachable task of the dependent type holds that '
             'dependency type inside a collection in that parameter; output identical on repetition and, for a shared '
             'seeded list, across 16 interpreters with different hash seeds. Distinct by graph description; '
             'non-trivial when >= 2 types and >= 1 arrow.'),
    'assumptions': ['per-arrow reading of "many": flag is per (dependent type, parameter, dependency type)',
                    'order of blocks/arrows is not asserted, only determinism'],
    'tiers': {
        'quick': {'shards': 16, 'budget_s': 30, 'n': 16000, 'n_shared': 400},
        'thorough': {'shards': 16, 'budget_s': 200, 'n': 300000, 'n_shared': 3000},
    },
}


_POOL = []      # nodes generated for the current case (a later reference may reuse one of them: same object)


def gen_graph(rng, depth):
    if _POOL and rng.random() < 0.2:
        return rng.choice(_POOL)            # shared instance: the very same description, hence the same task object
    node = _gen_graph(rng, depth)
    node['id'] = f'n{len(_POOL)}'
    _POOL.append(node)
    return node


def _gen_graph(rng, depth):
    """Description: {'t': type, 'f': {field: tree}}; tree leaves are task descriptions,
    containers {'l': [...]} / {'d': {k: tree}} / scalars {'s': x}."""
    from vlab.tasks_diagram import TASK_FIELDS
    tname = rng.choice(list(TASK_FIELDS)) if depth > 0 else rng.choice(['DF', 'DC', 'DF', 'DB'])
    node = {'t': tname, 'f': {}}
    node['scalar'] = rng.randrange(3)
    for fld in TASK_FIELDS[tname]:
        if depth <= 0 or rng.random() < 0.35:
            continue
        node['f'][fld] = gen_tree(rng, depth - 1, single=(fld in ('child', 'leaf', 'a', 'b')))
    return node


def gen_tree(rng, depth, single, nest=0):
    r = rng.random()
    if single and r < 0.6 or nest >= 2:
        return gen_graph(rng, depth)
    if r < 0.75:
        n = rng.randrange(0, 4)
        items = [gen_tree(rng, depth, True, nest + 1) if rng.random() < 0.8 else {'s': rng.randrange(3)} for _ in range(n)]
        if rng.random() < 0.3:
            items = [{'l': items}]
        return {'l': items}
    keys = rng.sample(['a', 'b', 'c'], rng.randrange(0, 3))
    return {'d': {k: gen_tree(rng, depth, True, nest + 1) for k in keys}}


def realize(node, memo=None):
    from vlab.tasks_diagram import DTYPES
    if memo is None:
        memo = {}
    if 't' in node and node.get('id') in memo:
        return memo[node['id']]
    if 't' in node:
        kw = {f: realize(tr, memo) for f, tr in node['f'].items()}
        T = DTYPES[node['t']]
        first = {'DF': 'n', 'DC': 'v', 'DB': 'label', 'DA': 'x', 'DD': None, 'DE': 'flag', 'DG': 'tag', 'DH': 'n', 'DZ': 'n'}[node['t']]
        if first in ('label', 'tag'):
            kw[first] = str(node['scalar'])
        elif first == 'flag':
            kw[first] = bool(node['scalar'] % 2)
        elif first == 'v':
            kw[first] = float(node['scalar'])
        elif first:
            kw[first] = node['scalar']
        obj = T(**kw)
        if node.get('id') is not None:
            memo[node['id']] = obj
        return obj
    if 'l' in node:
        return [realize(x, memo) for x in node['l']]
    if 'd' in node:
        return {k: realize(v, memo) for k, v in node['d'].items()}
    return node['s']


def expected(nodes):
    """Own traversal of the description: reachable types and arrows."""
    types = []
    arrows = {}

    def tasks_in(tree, out):
        if 't' in tree:
            out.append(tree)
        elif 'l' in tree:
            for x in tree['l']:
                tasks_in(x, out)
        elif 'd' in tree:
            for x in tree['d'].values():
                tasks_in(x, out)
        return out

    def visit(node):
        if node['t'] not in types:
            types.append(node['t'])
        for fld, tree in node['f'].items():
            direct = 't' in tree
            for sub in tasks_in(tree, []):
                key = (node['t'], fld, sub['t'])
                arrows[key] = arrows.get(key, False) or (not direct)
                visit(sub)
    for n in nodes:
        visit(n)
    return types, arrows


def parse(text):
    lines = [ln.strip() for ln in text.split('\n')]
    errs = []
    if not lines or lines[0] != 'classDiagram':
        errs.append('first line is not classDiagram')
    classes, fields, runs, arrows = [], {}, {}, []
    for ln in lines[1:]:
        if not ln or ln.startswith('direction '):
            continue
        if ln.startswith('class '):
            classes.append(ln[6:])
        elif ' <-- ' in ln:
            a, rest = ln.split(' <-- ', 1)
            many = rest.startswith('"many" ')
            if many:
                rest = rest[len('"many" '):]
            b, param = rest.split(': ', 1)
            arrows.append((a, param, b, many))
        elif ' : ' in ln:
            cls, rest = ln.split(' : ', 1)
            if rest.startswith('run()'):
                runs.setdefault(cls, []).append(rest[len('run()'):])
            else:
                ty, name = rest.rsplit(' ', 1)
                fields.setdefault(cls, []).append((ty, name))
        else:
            errs.append(f'unparsed line {ln!r}')
    return classes, fields, runs, arrows, errs


def judge(nodes, text, text2):
    from vlab.tasks_diagram import EXPECT
    bad = []
    types, arrows = expected(nodes)
    classes, fields, runs, parrows, errs = parse(text)
    for e in errs:
        bad.append(('unparseable-output', e))
    if text != text2:
        bad.append(('nondeterministic-output', 'two calls on the same input gave different text'))
    if sorted(classes) != sorted(types):
        missing = sorted(set(types) - set(classes))
        extra = sorted(set(classes) - set(types))
        dup = sorted({c for c in classes if classes.count(c) > 1})
        key = 'class-block-missing' if missing else ('class-block-duplicated' if dup else 'class-block-unexpected')
        bad.append((key, f'class blocks {classes} vs reachable types {types}'))
    for c in classes:
        if c in EXPECT:
            if fields.get(c, []) != EXPECT[c][0]:
                bad.append(('field-lines-differ', f'{c}: fields {fields.get(c)} != {EXPECT[c][0]}'))
            if runs.get(c, []) != [EXPECT[c][1]]:
                bad.append(('run-line-differs', f'{c}: run lines {runs.get(c)} != [{EXPECT[c][1]!r}]'))
    got = {}
    for a, p, b, many in parrows:
        if (a, p, b) in got:
            bad.append(('arrow-duplicated', f'arrow {(a, p, b)} emitted twice'))
        got[(a, p, b)] = many
    if set(got) != set(arrows):
        missing = sorted(set(arrows) - set(got))
        key = 'arrow-missing' if missing else 'arrow-unexpected'
        bad.append((key, f'arrows missing {missing}, unexpected {sorted(set(got) - set(arrows))}'))
    for k in set(got) & set(arrows):
        if got[k] != arrows[k]:
            bad.append(('many-flag-wrong', f'arrow {k}: many={got[k]}, expected {arrows[k]}'))
    return bad, types, arrows


def run_shard(rep):
    import hashlib
    import json
    import random
    from labtech.diagram import build_task_diagram
    cfg = META['tiers'][rep.tier]
    rep.require('diagrams_checked', 1000)
    rep.require('arrows_checked', 1000)
    srng = random.Random(f'C20-shared:{rep.seed}')
    chunk = []
    for i in range(cfg['n_shared']):
        del _POOL[:]
        nodes = [gen_graph(srng, srng.choice([1, 2, 3])) for _ in range(srng.randrange(1, 4))]
        smemo = {}
        chunk.append(build_task_diagram([realize(n, smemo) for n in nodes]))
        if len(chunk) == 20 or i == cfg['n_shared'] - 1:
            rep.seen('shared_digest', f'{i // 20}:' + hashlib.sha1('\n'.join(chunk).encode()).hexdigest()[:12])
            chunk = []
    for j in range(rep.shard, cfg['n'], rep.nshards):
        if rep.expired():
            rep.count('skipped_for_time')
            break
        rng = random.Random(f'{rep.seed}:C20:{j}')
        del _POOL[:]
        nodes = [gen_graph(rng, rng.choice([0, 1, 2, 3, 4])) for _ in range(rng.randrange(1, 5))]
        memo = {}
        tasks = [realize(n, memo) for n in nodes]
        rep.count('task_objects_built', len(memo))
        direction = rng.choice(['BT', 'TB', 'LR'])
        try:
            text = build_task_diagram(tasks, direction=direction)
            memo2 = {}
            text2 = build_task_diagram([realize(n, memo2) for n in nodes], direction=direction)
        except BaseException as ex:   # noqa
            rep.violation(f'raised:{type(ex).__name__}', f'build_task_diagram raised {ex}', {'nodes': nodes})
            continue
        bad, types, arrows = judge(nodes, text, text2)
        rep.case(json.dumps(nodes, sort_keys=True), len(types) >= 2 and len(arrows) >= 1)
        rep.count('diagrams_checked')
        rep.count('arrows_checked', len(arrows))
        rep.count('many_arrows', sum(1 for v in arrows.values() if v))
        rep.seen('type_sets', sorted(types))
        seen = set()
        for key, msg in bad:
            if key not in seen:
                seen.add(key)
                rep.violation(key, msg + ' :: ' + text[:600], {'nodes': nodes, 'direction': direction})
        if len(rep.samples) < 2 and len(arrows) >= 2:
            rep.sample({'nodes': nodes, 'diagram': text})


def post_merge(m):
    by = {}
    for s in m['sets'].get('shared_digest', ()):
        i, d = s.split(':')
        by.setdefault(i, set()).add(d)
    m['counters']['shared_chunks_compared'] = len(by)
    return [('output-differs-across-processes', f'chunk {i}: {len(ds)} different diagram digests across interpreters/'
             f'hash seeds', {'chunk': int(i)}) for i, ds in by.items() if len(ds) > 1][:3]


def replay(rep, wit):
    from labtech.diagram import build_task_diagram
    rep.case('a', True)
    rep.case('b', True)
    w = wit['witness']
    if 'nodes' not in w:
        return
    m1, m2 = {}, {}
    text = build_task_diagram([realize(n, m1) for n in w['nodes']], direction=w.get('direction', 'BT'))
    text2 = build_task_diagram([realize(n, m2) for n in w['nodes']], direction=w.get('direction', 'BT'))
    for key, msg in judge(w['nodes'], text, text2)[0]:
        rep.violation(key, msg, w)
