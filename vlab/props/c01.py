"""C01 - run_tasks returns exactly each requested task's own computed result."""

META = {
    'level': 'exploration',
    'rule': ('Seeded random DAG specs (chain/diamond/fan-in/fan-out/wide/layered/requested-subset; dependencies '
             'placed in scalar, nested-list and nested-dict parameters; equal-but-distinct duplicate instances) each '
             'run under 2+ configurations drawn from {sim, serial, fork, spawn} x max_workers x cache pre-state x '
             'bust_cache x seeded completion order; oracle = independent sequential reference evaluator over the '
             'spec + pairwise equality of the returned dicts across configurations. A case is distinct by '
             '(DAG structure, requested list, configuration, schedule seed); non-trivial when the DAG has >= 1 '
             'dependency edge and >= 2 tasks completed through the runner. Separately, "twins": pairs of tasks of one type whose parameter trees differ in exactly one small way (scalar type, enum class with the same member name or the same short class name nested elsewhere, nesting, dict key, order); one of them is cached beforehand, then both are requested under serial/fork/spawn; the value of such a task is the harness-side typed identity of its own parameters, so receiving the sibling\'s result shows.'),
    'assumptions': [
        'task values are a pure function (vlab.body.combine) of type, name, parameter, dependency values, filtered context',
        'DAGs up to 12 tasks (16+ for the default worker count), nesting depth <= 3',
        'the sim runner exercises the coordinator only; real fork/spawn runs are gate-controlled or free-running samples',
    ],
    'tiers': {
        'quick': {'shards': 16, 'budget_s': 40, 'n_spec_sim': 700, 'n_spec_real': 64, 'n_twins': 1200},
        'thorough': {'shards': 16, 'budget_s': 330, 'n_spec_sim': 16000, 'n_spec_real': 480, 'n_twins': 20000},
    },
}


def check(rep, scn, out, exp, tag):
    from vlab.dagcommon import scn_summary
    from vlab.model import dedup
    req = scn.get('requested') or scn['spec']['requested']
    wit = {'scenario': scn}
    if out.exc is not None:
        rep.violation(f'raised:{type(out.exc).__name__}',
                      f'{tag}: run_tasks raised {out.exc_info} on an all-success DAG', wit)
        return False
    names = [n for n, _ in out.result_list]
    if names != dedup(req):
        rep.violation('wrong-keys', f'{tag}: keys {names} != requested (dedup, in order) {dedup(req)}', wit)
        return False
    ok = True
    for n, v in out.result_list:
        if tuple(v) != tuple(exp[n]):
            rep.violation('wrong-value', f'{tag}: value of {n} is {v}, reference evaluator gives {exp[n]}; '
                          f'summary={scn_summary(scn, out)}', wit)
            ok = False
            break
    # the result dict must also be addressable by the caller's own instances
    for t in out.req:
        if t not in out.result:
            rep.violation('wrong-keys', f'{tag}: requested instance {t.name} not a key of the result', wit)
            ok = False
            break
    return ok


def one_spec(rep, rng, real):
    from vlab import engine
    from vlab.dagcommon import gen_dag_scenario, is_nontrivial, scn_key, scn_summary
    import copy
    first = 'sim' if not real else rng.choice(['serial', 'serial', 'fork', 'fork', 'spawn'])
    nmax = rng.choice([5, 8, 12])
    scn = gen_dag_scenario(rng, backend=first, nmax=nmax)
    scn['pre_gen'] = 1          # cached values must equal recomputed ones
    configs = [scn]
    # second configuration over the same spec / requested list
    scn2 = copy.deepcopy(scn)
    scn2['backend'] = 'sim' if (not real or rng.random() < 0.5) else rng.choice(['serial', 'fork', 'spawn'])
    scn2['max_workers'] = rng.choice([1, 2, 3, None]) if scn2['backend'] == 'sim' else rng.choice([1, 2, 3])
    scn2['sched_seed'] = rng.randrange(1 << 30)
    scn2['build_seed'] = rng.randrange(1 << 30)
    names = list(scn['spec']['tasks'])
    scn2['pre'] = rng.sample(names, rng.randrange(0, len(names) + 1))
    scn2['bust'] = bool(scn2['pre']) and rng.random() < 0.15
    if scn2['backend'] in ('fork', 'spawn'):
        scn2['gated'] = rng.random() < 0.7
        if not scn2['gated']:
            scn2['free_sleep'] = [0.0, 0.005, 0.02]
    else:
        scn2.pop('gated', None)
        scn2.pop('free_sleep', None)
    configs.append(scn2)
    # a quarter of the pairs: the second Lab (another context, hence other values; an empty storage) is handed the very
    # task objects the first Lab has just run - nothing of the first run may leak into the second one's values
    reuse = rng.random() < 0.25
    if reuse:
        scn['pickled_copies'] = scn2['pickled_copies'] = False
        scn2['ctx'] = {'shared': 's-second', 'for_t0': 'd0', 'for_t1': 'd1', 'other': 'o-second', 'extra': 1}
        scn2['pre'] = []
        scn2['bust'] = False
    results = []
    first_out = None
    for i, c in enumerate(configs):
        if reuse and i == 1 and (first_out is None or first_out.exc is not None or getattr(first_out, 'aborted', None)):
            break
        out = engine.run_dag(c, keep=(reuse and i == 0),
                             prebuilt=((first_out.built, first_out.req) if reuse and i == 1 else None))
        if reuse and i == 0:
            first_out = out
        if reuse and i == 1:
            rep.count('second_runs_of_the_same_task_objects_under_another_context')
        if getattr(out, 'aborted', None):
            if out.aborted.startswith('spin'):
                rep.violation('never-returns', f'config{i}: run_tasks never returns on an all-success DAG: {out.aborted}',
                              {'scenario': c})
                rep.case(scn_key(c), True)
            else:
                rep.inconclusive(f'harness abort: {out.aborted}', {'scenario': c})
            continue
        exp, _ = engine.expected_values(c, out)
        ok = check(rep, c, out, exp, f'config{i}')
        rep.case(scn_key(c), is_nontrivial(c, out))
        rep.count(f'runs_{c["backend"]}')
        rep.count('values_compared', len(out.result_list) if out.result is not None else 0)
        rep.count('completions_observed', sum(1 for x in out.trace.calls if x['op'] == 'yield'))
        rep.seen('dag_shapes', [c['spec']['shape'], len(c['spec']['tasks'])])
        rep.seen('completion_orders', [x['name'] for x in out.trace.calls if x['op'] == 'yield'])
        if out.rests:
            rep.count('rest_points', len(out.rests))
        rep.count('events_' + 'start', sum(1 for e in out.events if e['k'] == 'start'))
        if out.result is not None:
            results.append(out.result_list)
        if i == 0:
            rep.sample(scn_summary(c, out))
    if first_out is not None:
        engine.cleanup(first_out)
    if len(results) == 2 and not reuse:
        rep.count('config_pairs_compared')
        if results[0] != results[1]:
            rep.violation('config-dependent', f'same spec/requested gave different dicts under two configurations: '
                          f'{results[0]} vs {results[1]}', {'scenarios': configs})


def twin_case(rep, rng, fixed=None):
    """Two tasks of one type whose parameters differ in exactly one small way (scalar type, enum class with the same
    member or short name, list vs nesting, dict key ...); the first one's result is cached beforehand, then the
    second (and the first) are requested: each must get ITS OWN value (the value is the typed identity of the
    task's parameters), whatever was cached and whichever backend runs it."""
    import json
    import os
    import shutil
    import tempfile
    import labtech
    from vlab import engine, valgen
    from vlab.props.c07 import build
    M, C = 'vlab.tasks_core', 'VT'
    if fixed is None:
        pd = valgen.gen_value(rng, rng.choice([1, 2, 3]), tasks=False)
        if rng.random() < 0.3:
            # enum twins: the same tree with, at one position, members of two enum classes that share the member
            # name, the class name (another module) or the short class name (nested in different classes)
            import random
            e = rng.choice(valgen.ENUMS)
            opts = [x for x in valgen.ENUMS if x != e and (x[2] == e[2] or x[1].split('.')[-1] == e[1].split('.')[-1])]
            if not opts:
                return
            e2 = rng.choice(opts)
            sd = rng.randrange(1 << 30)
            base = pd if any(k in pd for k in ('l', 't', 'd', 'fd')) else {'l': [pd]}
            pd = valgen.plant(random.Random(sd), base, {'e': list(e)})
            nm = ({'task': [M, C, valgen.plant(random.Random(sd), base, {'e': list(e2)}), {'s': None}]}, 'enum-twin')
        else:
            nm = valgen.near_miss(rng, {'task': [M, C, pd, {'s': None}]})
        if nm is None or nm[0]['task'][:2] != [M, C]:
            return
        d2, kind = nm
        case = {'a': [M, C, pd, {'s': None}], 'b': d2['task'], 'kind': kind,
                'backend': rng.choice(['serial', 'serial', 'fork', 'fork', 'spawn']),
                'precache': rng.choice(['a', 'a', 'b', None]), 'order': rng.choice(['ab', 'ba', 'b'])}
    else:
        case = fixed
        kind = case['kind']
    wit = {'twin': case}
    try:
        A, B = build(*case['a']), build(*case['b'])
    except Exception:
        return
    if A == B:
        rep.count('twins_python_equal_skipped')
        return      # 1 / 1.0 / True: one task for Python, hence for labtech
    engine.quiet_labtech()
    d = tempfile.mkdtemp(prefix='vlab-c01-twin-')
    try:
        want = {id(A): ('twin', json.dumps(valgen.obj_ident(A))), id(B): ('twin', json.dumps(valgen.obj_ident(B)))}
        if case['precache']:
            t0 = build(*case[case['precache']])
            labtech.Lab(storage=d, runner_backend='serial').run_tasks([t0], disable_progress=True, disable_top=True)
        req = {'ab': [A, B], 'ba': [B, A], 'b': [B]}[case['order']]
        lab = labtech.Lab(storage=d, runner_backend=case['backend'], max_workers=2)
        try:
            res = lab.run_tasks(req, disable_progress=True, disable_top=True)
        except BaseException as ex:   # noqa
            rep.violation(f'raised:{type(ex).__name__}', f'twins ({kind}): run_tasks raised {type(ex).__name__}: {ex}', wit)
            return
        finally:
            if case['backend'] != 'serial':
                engine.reap_children()
        rep.count('twin_pairs')
        rep.count('twin_' + kind)
        rep.count('values_compared', len(req))
        rep.case(['twin', json.dumps(case, sort_keys=True)], True)
        if len(res) != len(req) or any(k is not t for k, t in zip(res, req)):
            rep.violation('wrong-keys', f'twins ({kind}): result has {len(res)} keys for {len(req)} distinct requested tasks', wit)
            return
        for t in req:
            got = res[t]
            if tuple(got) != want[id(t)]:
                rep.violation('wrong-value', f'twins ({kind}, {case["backend"]}, cached beforehand: {case["precache"]}): '
                              f'{t!r} got the value {got}, its own is {want[id(t)]}'[:900], wit)
                break
    finally:
        shutil.rmtree(d, ignore_errors=True)


def run_shard(rep):
    from vlab.dagcommon import scenario_rng
    cfg = META['tiers'][rep.tier]
    rep.require('config_pairs_compared', 20 if rep.tier == 'quick' else 200)
    rep.require('runs_fork', 4)
    rep.require('twin_pairs', 100)
    rep.require('second_runs_of_the_same_task_objects_under_another_context', 50)
    import time
    twin_deadline = rep.t0 + 0.3 * (rep.deadline - rep.t0)       # the twins may take at most 30 % of the budget
    for j in range(rep.shard, cfg.get('n_twins', 400), rep.nshards):
        if time.monotonic() > twin_deadline:
            rep.count('twins_skipped_for_time')
            continue
        twin_case(rep, scenario_rng(rep.seed, 'C01twin', j))
    jobs = [('real', j) for j in range(cfg['n_spec_real'])] + [('sim', j) for j in range(cfg['n_spec_sim'])]
    for kind, j in jobs[rep.shard::rep.nshards]:
        if rep.expired():
            rep.count('skipped_for_time')
            continue
        rng = scenario_rng(rep.seed, 'C01' + kind, j)
        one_spec(rep, rng, kind == 'real')


def replay(rep, wit):
    from vlab import engine
    w = wit['witness']
    if 'twin' in w:
        import random
        rep.case('a', True)
        rep.case('b', True)
        twin_case(rep, random.Random(0), fixed=w['twin'])
        return
    scns = w.get('scenarios') or [w['scenario']]
    outs = []
    for i, c in enumerate(scns):
        out = engine.run_dag(c)
        exp, _ = engine.expected_values(c, out)
        check(rep, c, out, exp, f'replay{i}')
        rep.case(['replay', i], True)
        outs.append(out.result_list if out.result is not None else None)
    if len(outs) == 2 and outs[0] != outs[1]:
        rep.violation('config-dependent', f'{outs[0]} vs {outs[1]}', w)
