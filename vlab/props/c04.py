"""C04 - per-type and global concurrency limits are never exceeded."""

META = {
    'level': 'exploration',
    'rule': ('Random DAGs biased to limited types (max_parallel 1/2/3/None, crossed with the cache options: default pickle cache, JSON cache, cache=None) and wide shapes x max_workers '
             '{1,2,3,None} x sim / gate-controlled fork+spawn (tasks held inside run(), released in seeded subsets, '
             'deaths) / free-running fork+spawn with random sleeps / serial; monitors: in-flight per type at every '
             'submit (Runner boundary), worker processes launched-and-unfinished (launch ledger) and tasks inside '
             'run() (start/end events) at every quiescent rest point, interval sweep over launch/start/end on the '
             'shared monotonic clock, pid/thread of serial executions. Distinct by (DAG, config, schedule seed); '
             'non-trivial when some limit was binding: more runnable tasks than a type limit or max_workers allowed.'),
    'assumptions': ['a worker process is counted from Process.start() (launch ledger) until its run() end event',
                    'rest points are logical (gate-controlled), not timed'],
    'tiers': {
        'quick': {'shards': 16, 'budget_s': 45, 'n_sim': 2400, 'n_real': 200},
        'thorough': {'shards': 16, 'budget_s': 330, 'n_sim': 40000, 'n_real': 2400},
    },
}

LIMITED = (('NA', 2), ('NB', 3), ('NC', 3), ('ND', 3), ('NN', 1), ('NM', 4), ('NK', 2))


def make_scn(rng, real):
    from vlab.dagcommon import gen_dag_scenario
    backend = rng.choice(['serial', 'fork', 'fork', 'fork', 'spawn']) if real else 'sim'
    shape = rng.choice(['wide', 'wide', 'fanout', 'fanin', 'layered', 'diamond', None])
    big = real and rng.random() < 0.06
    scn = gen_dag_scenario(rng, backend=backend, shape=('wide' if big else shape), nmax=(18 if big else rng.choice([6, 9, 12])),
                           types=LIMITED, precache=rng.random() < 0.3, failing=(backend != 'serial' and rng.random() < 0.3),
                           fail_kinds=('kill', 'exit', 'exit0', 'raise:ValueError'), fresh=(rng.random() < 0.4),
                           workers=((None,) if big else (1, 2, 3, None)))
    if big:
        scn['max_workers'] = None
    sim_deaths = backend == 'sim' and any(a in ('kill', 'exit', 'exit0') for a in (scn.get('failing') or {}).values())
    if not scn.get('gated') and not sim_deaths and rng.random() < 0.3:
        # the same Lab executes the same task objects once more (bust_cache): the limits hold in that call too
        scn['second_run'] = {'failing': {}}
    return scn


def judge(rep, scn, out):
    from vlab import oracles
    from vlab.props.dagprop import report_bad
    sec = getattr(out, 'second', None)
    if sec:
        out.trace.calls = out.trace.calls[:len(out.trace.calls) - len(sec['calls'])]
    bad, checks, peak = oracles.c04(scn, out)
    if sec:
        from collections import Counter
        from vlab.model import max_parallel
        rep.count('second_calls_on_the_same_task_objects')
        spec = scn['spec']
        inflight = []
        for c in sec['calls']:
            if c['op'] == 'submit':
                inflight.append(c['name'])
                cnt = Counter(spec['tasks'][n]['type'] for n in inflight)
                mp = max_parallel(spec, c['name'])
                checks += 1
                if mp is not None and cnt[spec['tasks'][c['name']]['type']] > mp:
                    bad.append(('type-limit-exceeded-at-submit', f"second run_tasks call on the same task objects: "
                                f"{cnt[spec['tasks'][c['name']]['type']]} tasks of type {spec['tasks'][c['name']]['type']} in "
                                f"flight (max_parallel={mp}) after submit({c['name']}): {inflight}"))
                    break
            elif c['op'] == 'yield' and c['name'] in inflight:
                inflight.remove(c['name'])
    rep.count('limit_checks', checks)
    rep.count('peak_parallel_sum', peak)
    rep.seen('peak_parallel', peak)
    if out.exc is not None:
        rep.foreign[f'run_tasks raised {type(out.exc).__name__}'] += 1
    report_bad(rep, scn, bad, out=out)
    # binding: at some wait more than W in flight, or a type limit held a runnable task back
    binding = any(len(c['inflight']) > out.W for c in out.trace.calls if c['op'] == 'wait')
    if not binding:
        from collections import Counter
        cnt = Counter(t['type'] for t in scn['spec']['tasks'].values())
        binding = any(cnt[t] > m for t, m in (('NB', 1), ('NC', 2), ('ND', 3), ('NM', 2), ('NK', 1)))
    return binding


def run_shard(rep):
    from vlab.props.dagprop import drive
    cfg = META['tiers'][rep.tier]
    rep.require('limit_checks', 3000)
    rep.require('rest_points', 60)
    rep.require('second_calls_on_the_same_task_objects', 100)
    drive(rep, 'C04', make_scn=make_scn, judge=judge, n_sim=cfg['n_sim'], n_real=cfg['n_real'])


def replay(rep, wit):
    from vlab.props.dagprop import replay_with
    replay_with(rep, wit, judge)
