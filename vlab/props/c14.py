"""C14 - one Ctrl-C drains the run gracefully; a second one stops it at once."""

META = {
    'level': 'fault_enumeration',
    'rule': ('(a) an interrupt that ARRIVES when the calling thread reaches the k-th labtech line executed during '
             'run_tasks (sys.monitoring LINE failpoint) and is DELIVERED as KeyboardInterrupt where CPython would '
             'deliver it - at the next function entry / generator resume, backward jump or return from a C call '
             'outside harness code (PY_START/PY_RESUME/JUMP/C_RETURN events switched on at arrival), never at an '
             'instruction boundary where the interpreter does not look at signals: serial - every k of several 3-5 task scenarios with cache hits and '
             'misses (displays off and on; strided in the quick tier except the lines of labtech/cache.py and the line after each, which are all taken and run first); fork/spawn - strided k in the quick tier, every k of several scenarios in '
             'the thorough tier; (b) a second interrupt k2 lines after the first while gated tasks are still executing; '
             '(c) real SIGINT to the process group (workers and manager processes receive it as with a terminal '
             'Ctrl-C) at gate-controlled rest points: single (gates then opened), double (gates never opened) and '
             'right after a Process.start (worker still bootstrapping); (d) interrupts inside the multiprocessing proxy I/O that labtech performs from the calling thread (failpoint on the lines of multiprocessing/connection.py, managers.py, queues.py executed under labtech frames - where a real signal can land but a labtech-line failpoint cannot; code reached from finalizers excluded because CPython swallows exceptions there). Job kinds are interleaved round-robin. Oracles: O1 run_tasks raises '
             'KeyboardInterrupt (no other exception, no normal return); O2 no process launch / serial start after '
             'the interrupt instant (launch ledger, event log); O3 every worker launched before a single interrupt '
             'ends and its result is cached; O4 every entry reported cached afterwards loads its reference value in '
             'a fresh Lab; after a second interrupt: workers dead, at most one epilogue wait(), nothing launched; a '
             'SIGALRM watchdog turns a run that never returns into a hang verdict (gates are never opened in the '
             'double case, so waiting for the tasks is a logical hang). Distinct by (scenario, k1, k2 / signal '
             'point); a case counts only if the interrupt was actually delivered.'),
    'assumptions': ['arrival at line granularity in the calling thread, delivery at the first eval-breaker-equivalent '
                    'event after it; later check points of the same line are reached only through the lines of '
                    'the labtech (or, in (d), multiprocessing) code it calls', 'a worker that dies while bootstrapping has not started its task'],
    'tiers': {
        'quick': {'shards': 16, 'budget_s': 50, 'mp_scn': 1, 'mp_stride': 9, 'serial_scn': 2, 'serial_stride': 2, 'fork_scn': 2, 'fork_stride': 7,
                  'spawn_scn': 1, 'spawn_stride': 40, 'double_pairs': 160, 'sigint_runs': 48, 'handler_sweeps': 2, 'handler_sweep_len': 26},
        'thorough': {'shards': 16, 'budget_s': 420, 'mp_scn': 3, 'mp_stride': 1, 'serial_scn': 6, 'serial_stride': 1, 'fork_scn': 3, 'fork_stride': 1,
                     'spawn_scn': 2, 'spawn_stride': 6, 'double_pairs': 2000, 'sigint_runs': 480, 'handler_sweeps': 14, 'handler_sweep_len': 45},
    },
}


def make_scn(seed, idx, backend, gated=False, displays=False, cold=False):
    from vlab.dagcommon import gen_dag_scenario, scenario_rng
    rng = scenario_rng(seed, 'C14scn' + backend, idx)
    scn = gen_dag_scenario(rng, backend=backend, nmax=rng.choice([3, 4, 5]), fresh=False, precache=False,
                           types=(('NA', 4), ('NB', 1), ('NS', 2), ('NJ', 1)),
                           shape=rng.choice(['diamond', 'layered', 'fanin', 'chain', 'wide']), gated=gated)
    names = list(scn['spec']['tasks'])[:6]
    scn['spec']['tasks'] = {n: scn['spec']['tasks'][n] for n in names}
    for n, t in scn['spec']['tasks'].items():
        pass
    from vlab.gen import gen_requested
    # drop references to removed tasks
    def prune(tree):
        from vlab.gen import is_leaf
        if is_leaf(tree):
            return tree if tree['$t'] in names else None
        if isinstance(tree, list):
            return [x for x in (prune(y) for y in tree) if x is not None]
        if isinstance(tree, dict):
            return {k: v for k, v in ((k, prune(v)) for k, v in tree.items()) if v is not None}
        return tree
    for n, t in scn['spec']['tasks'].items():
        for f in ('one', 'many', 'named'):
            t[f] = prune(t[f])
        if t['many'] is None:
            t['many'] = []
    scn['spec']['requested'] = gen_requested(rng, scn['spec'])
    scn['pre'] = [n for n in names if rng.random() < 0.35]
    if cold:
        # nothing cached beforehand and everything requested: every cacheable task goes through its FIRST save
        scn['pre'] = []
        scn['spec']['requested'] = list(names)
    scn['pre_backend'] = 'serial'
    scn['bust'] = False
    scn['max_workers'] = rng.choice([2, 2, 3])
    scn['displays'] = displays
    scn['cof'] = True
    if backend in ('fork', 'spawn'):
        scn['gated'] = gated
        scn.pop('free_sleep', None)
        if not gated:
            scn['free_sleep'] = [0.004, 0.01, 0.025]
        else:
            scn['task_plan'] = {n: {'gate_timeout': 25} for n in names}
    return scn


def run_case(scn, mode, k1=None, k2=None, sig=None, count_only=False, watchdog=None, mp=False):
    """mode: 'line' | 'sigint'.  Returns dict with delivery info and bad[]."""
    import os
    import signal
    import threading
    import time
    from vlab import engine, inject, oracles
    from vlab.gen import Built
    from vlab.spy import HarnessAbort
    import labtech
    info = {'fired': [], 't_fire': [], 'bad': [], 'n_lines': None, 'delivered': False}
    state = {}

    def alarm(*_a):
        raise HarnessAbort('watchdog: run_tasks did not return')

    def before(out):
        state['out'] = out
        signal.signal(signal.SIGALRM, alarm)
        signal.alarm(watchdog or (30 if scn['backend'] != 'serial' else 15))
        if mode == 'line':
            def on_fire(site):
                if mp:
                    import sys as _sys
                    f = _sys._getframe(1)
                    while f is not None and '/labtech/' not in f.f_code.co_filename:
                        f = f.f_back
                    site = dict(site, via=(f"{f.f_code.co_filename.rsplit('/labtech/', 1)[1]}:{f.f_code.co_name}" if f else None))
                info['fired'].append(site)
                info['t_fire'].append(time.monotonic_ns())
                if k2 is not None and len(info['fired']) == 1:
                    state['inj'].rearm(k2)
            extra = ('multiprocessing/connection.py', 'multiprocessing/managers.py', 'multiprocessing/queues.py') if mp else ()
            state['inj'] = inject.Injector(k=(None if count_only else k1), action='interrupt', on_fire=on_fire,
                                           extra_files=extra, only_extra=mp)
            state['inj'].start()
        else:
            signal.signal(signal.SIGINT, signal.default_int_handler)

    def after(out):
        signal.alarm(0)
        if mode == 'line':
            info['n_lines'] = state['inj'].stop()
            info['save_ks'] = list(state['inj'].ks_by_file.get('cache.py', ()))
        else:
            signal.signal(signal.SIGINT, signal.SIG_IGN)
            state['done'] = True
            for t in state.get('timers', []):
                t.cancel()
        # after a double interrupt: give terminate() a moment, then record survivors
        if k2 is not None or (sig and sig.get('double')):
            deadline = time.monotonic() + 5
            while time.monotonic() < deadline and out.ledger_obj.alive():
                time.sleep(0.02)
            info['alive_after'] = [e['name'] for e in out.ledger_obj.alive()]
            if info['alive_after']:
                info['alive_diag'] = [dict(engine.diag_process(e['pid']), task=e['name'], use_cache=e['use_cache'])
                                      for e in out.ledger_obj.alive()[:2]]
        else:
            # single interrupt: run_tasks must have waited for every worker it launched (give the
            # finished ones a moment to be reaped); whatever is still alive is an orphan
            deadline = time.monotonic() + 1.0
            while time.monotonic() < deadline and out.ledger_obj.alive():
                time.sleep(0.01)
            # logical criterion, not timing: a live worker whose run() body has not ended is still executing its
            # task (a worker that is merely slow to exit after delivering its result is not an orphan)
            from vlab import events as _ev
            ended_now = {e['name'] for e in _ev.read_events(out.ctl) if e['k'] == 'end' and e.get('gen') == 1}
            info['orphans'] = [e['name'] for e in out.ledger_obj.alive() if e['name'] not in ended_now]
        for e in out.ledger_obj.alive():
            out.ledger_obj.kill(e)

    def hooks_factory(out, gate):
        if gate is None:
            return None
        orig_before_wait = gate.before_wait
        st = {'rest': 0, 'sent': 0}
        state['gate'] = gate
        if mode == 'line':
            # gated line mode (double interrupt): tasks stay inside run() for good
            def hold(spy):
                if count_only and spy.inflight:
                    raise HarnessAbort('count-until-first-rest')
            gate.before_wait = hold
            return gate

        def send():
            if state.get('done'):
                return
            info['t_fire'].append(time.monotonic_ns())
            info['fired'].append({'file': 'signal', 'func': 'SIGINT@rest', 'line': st['rest'], 'text': ''})
            os.killpg(os.getpgrp(), signal.SIGINT)

        def before_wait(spy):
            if st['sent']:
                if not sig.get('double') and not st.get('opened'):
                    # single interrupt: let the running tasks finish
                    gate.release_all([t.name for t in spy.inflight])
                    st['opened'] = True
                return
            inflight = [t.name for t in spy.inflight]
            if sig.get('at') == 'rest' and inflight and st['rest'] >= sig.get('rest', 0) and \
                    not any((n in gate.released) or gate.use_cache.get(n) for n in inflight[:gate.W]):
                # wait until the expected tasks are inside run(), then signal from a helper thread so that the
                # interrupt lands while the coordinator is inside labtech's wait()
                deadline = time.monotonic() + 15
                while time.monotonic() < deadline:
                    started, _ = gate._started()
                    if all(n in started for n in inflight[:gate.W]):
                        break
                    time.sleep(0.002)
                st['sent'] = 1
                timers = [threading.Timer(sig.get('delay', 0.05), send)]
                if sig.get('double'):
                    timers.append(threading.Timer(sig.get('delay', 0.05) + sig.get('gap', 0.4), send))
                state['timers'] = timers
                for t in timers:
                    t.start()
                return
            st['rest'] += 1
            orig_before_wait(spy)
        gate.before_wait = before_wait
        if sig.get('at') == 'launch':
            def on_launch(ent):
                st['launches'] = st.get('launches', 0) + 1
                if st['launches'] == sig.get('nth', 1) and not st['sent']:
                    st['sent'] = 1
                    info['t_fire'].append(time.monotonic_ns())
                    info['fired'].append({'file': 'signal', 'func': 'SIGINT@launch', 'line': 0, 'text': ent['name']})
                    os.killpg(os.getpgrp(), signal.SIGINT)
            state['on_launch'] = on_launch
        return gate

    def before2(out):
        before(out)
        if mode == 'sigint' and sig.get('at') == 'launch':
            out.ledger_obj.on_launch = state.get('on_launch')

    try:
        out = engine.run_dag(scn, keep=True, before_run=before2, after_run=after, hooks_factory=hooks_factory)
    except KeyboardInterrupt:
        signal.alarm(0)
        signal.signal(signal.SIGINT, signal.SIG_IGN)
        info['stray'] = True
        out = state.get('out')
        if out is not None:
            engine.cleanup(out)
        return info
    finally:
        signal.alarm(0)
    try:
        info['delivered'] = bool(info['fired'])
        if count_only or not info['delivered']:
            return info
        judge(scn, out, info, mode, double=(k2 is not None or bool(sig and sig.get('double'))))
        return info
    finally:
        if mode == 'sigint':
            signal.signal(signal.SIGINT, signal.SIG_IGN)
        engine.cleanup(out)
        if mode == 'sigint':
            signal.signal(signal.SIGINT, signal.default_int_handler)


def judge(scn, out, info, mode, double):
    import json
    import labtech
    import os
    from vlab import engine, events, inject
    from vlab.body import base_of
    from vlab.gen import Built
    from vlab.model import cacheable
    from vlab.storages import make_storage
    bad = info['bad']
    def _sk(f):
        # an interrupt inside multiprocessing I/O is keyed by the labtech function that was doing the I/O
        return ('mpio-via:' + str(f.get('via'))) if str(f.get('file', '')).startswith('py:') else inject.site_key(f)
    site = _sk(info['fired'][0])
    site_last = _sk(info['fired'][-1])
    t1 = info['t_fire'][0]
    tlast = info['t_fire'][-1]
    spec = scn['spec']
    exc = out.exc
    if getattr(out, 'aborted', None):
        bad.append((f'hang@{site_last}', f'run_tasks did not return within the watchdog after interrupt(s) at '
                    f'{info["fired"]}: {out.aborted}'))
        return
    if exc is None:
        bad.append((f'returned-normally@{site}', f'interrupt at {info["fired"]} but run_tasks returned normally '
                    f'(keys {[t.name for t in (out.result or {})]})'))
    elif not isinstance(exc, KeyboardInterrupt):
        bad.append((f'raised-{type(exc).__name__}@{out.exc_info["where"]}|{site}', f'interrupt at {info["fired"]}: run_tasks '
                    f'raised {out.exc_info} instead of KeyboardInterrupt'))
    late = [e for e in out.ledger if e['t'] > t1]
    if scn['backend'] == 'serial':
        late = [{'name': e['name']} for e in out.events if e['k'] == 'start' and e['t'] > t1]
    if late:
        bad.append((f'started-after-interrupt@{site_last if double else site}', f'tasks started after the interrupt instant: '
                    f'{[e["name"] for e in late]} (interrupts at {info["fired"]})'))
    ended = {e['name'] for e in out.events if e['k'] == 'end' and e.get('gen') == 1}
    if not double and info.get('orphans'):
        bad.append((f'worker-still-running-after-return@{site}', f'run_tasks raised after one interrupt at '
                    f'{info["fired"]} while workers it had launched were still running: {info["orphans"]}'))
    if not double and scn['backend'] != 'serial':
        for e in out.ledger:
            if e['t'] < t1 and not e['use_cache'] and e['name'] is not None:
                died_in_bootstrap = e['name'] not in {x['name'] for x in out.events if x['k'] == 'start'}
                if (died_in_bootstrap and mode == 'sigint') or e['name'] in (info.get('orphans') or ()):
                    continue
                if e['name'] not in ended:
                    bad.append((f'executing-task-not-finished@{site}', f'{e["name"]} was launched before the interrupt '
                                f'but never ended'))
                elif cacheable(spec, e['name']) and e['name'] not in out.cached_after:
                    bad.append((f'executing-task-not-cached@{site}', f'{e["name"]} finished after the interrupt but '
                                f'its result is not cached'))
    if double:
        if info.get('alive_after'):
            bad.append((f'workers-survive-second-interrupt@{site_last}', f'after two interrupts workers still alive: '
                        f'{info["alive_after"]}; diagnosis: {json.dumps(info.get("alive_diag"), default=repr)[:3000]}'))
        calls = out.trace.calls
        stops = [i for i, c in enumerate(calls) if c['op'] == 'stop']
        if stops:
            nwait = sum(1 for c in calls[stops[0]:] if c['op'] == 'wait')
            if nwait > 1:
                bad.append((f'waits-after-stop@{site_last}', f'{nwait} wait() calls after stop()'))
    # O4: everything reported cached loads its reference value
    exp, _ = engine.expected_values(scn, out)
    store = os.path.join(out.ctl, 'store')
    engine.write_plan(out.ctl, 2)
    lab2 = labtech.Lab(storage=make_storage('local', store), runner_backend='serial', context=scn.get('ctx') or
                       {'shared': 's', 'for_t0': 'c0', 'for_t1': 'c1', 'other': 'o'})
    b2 = Built(spec)
    for n in spec['tasks']:
        t = b2.inst(n)
        try:
            c = lab2.is_cached(t)
        except BaseException as ex:   # noqa
            bad.append((f'is_cached-raises@{site}', str(ex)))
            continue
        if not c:
            continue
        pre = len(events.read_events(out.ctl))
        try:
            r = lab2.run_tasks([t], disable_progress=True, disable_top=True)
        except BaseException as ex:   # noqa
            r = {}
        reexec = [e['name'] for e in events.read_events(out.ctl)[pre:] if e['k'] == 'start' and e['name'] == n]
        if t not in r or reexec:
            bad.append((f'cached-entry-unloadable@{site_last}', f'{n} is reported cached after the interrupt at '
                        f'{info["fired"]} but cannot be loaded'))
        elif tuple(base_of(r[t])) != tuple(exp[n]):
            bad.append((f'cached-entry-wrong@{site_last}', f'{n} loads {r[t]}, reference {exp[n]}'))


def jobs_for(rep, cfg):
    """Deterministic job list (every shard computes the same list; count passes are cheap)."""
    jobs = []
    for i in range(cfg['serial_scn'] + 1):
        displays = (i == cfg['serial_scn'])
        scn = make_scn(rep.seed, i, 'serial', displays=displays, cold=(i % 2 == 1))
        c = run_case(scn, 'line', count_only=True)
        n = c['n_lines'] or 0
        rep.count('serial_line_points', n)
        stride = cfg['serial_stride'] * (3 if displays else 1)
        # every line of labtech/cache.py (is_cached, save with its clean-up, load) and the line that follows: the
        # window in which an interrupt can leave a half-written entry; its own job kind, never strided
        save_ks = sorted({k2 for k in (c.get('save_ks') or ()) for k2 in (k, k + 1)})
        rep.count('serial_cache_line_points', len(save_ks))
        for k in save_ks:
            jobs.append(('saveline', scn, k, None, None))
        for k in range(1 + (i % stride), n + 2, stride):
            if k not in save_ks:
                jobs.append(('line', scn, k, None, None))
    for backend, key in (('fork', 'fork'), ('spawn', 'spawn')):
        for i in range(cfg[key + '_scn']):
            scn = make_scn(rep.seed, i, backend, cold=(i % 2 == 1))
            c = run_case(scn, 'line', count_only=True)
            n = c['n_lines'] or 0
            rep.count(backend + '_line_points', n)
            stride = cfg[key + '_stride']
            for k in range(1 + ((i * 3) % stride), int(n * 1.15) + 2, stride):
                jobs.append(('line', scn, k, None, None))
    for i in range(cfg.get('mp_scn', 1)):
        for displays in (False, True):
            scn = make_scn(rep.seed, 300 + i, 'fork', displays=displays)
            c = run_case(scn, 'line', count_only=True, mp=True)
            n = c['n_lines'] or 0
            rep.count('fork_mp_io_line_points', n)
            stride = cfg.get('mp_stride', 9)
            for k in range(1 + (i % stride), int(n * 1.1) + 2, stride):
                jobs.append(('mpline', scn, k, None, None))
    import random
    prng = random.Random(f'{rep.seed}:C14:double')
    n0 = {}
    for j in range(cfg['double_pairs']):
        backend = 'fork' if prng.random() < 0.85 else 'spawn'
        scn = make_scn(rep.seed, 100 + j % 7, backend, gated=True)
        key = (backend, j % 7)
        if key not in n0:
            n0[key] = run_case(scn, 'line', count_only=True)['n_lines'] or 300
        # the second interrupt mostly lands in what follows the first one closely (the first interrupt's handler:
        # logging, cancel loop, first epilogue waits), sometimes much later
        k2 = prng.randrange(1, 40) if prng.random() < 0.5 else prng.randrange(1, 400)
        # ... and the first one mostly arrives once tasks have been submitted (before that there is nothing to stop)
        k1 = prng.randrange(int(n0[key] * 0.75), n0[key] + 250) if prng.random() < 0.7 else prng.randrange(1, n0[key] + 250)
        jobs.append(('line', scn, k1, k2, None))
    # a sweep of the second interrupt over every line that directly follows the first one, for a few first points
    # taken while tasks are still waiting to be started
    for a in range(cfg.get('handler_sweeps', 2)):
        scn = make_scn(rep.seed, 100 + a % 7, 'fork', gated=True)
        key = ('fork', a % 7)
        if key not in n0:
            n0[key] = run_case(scn, 'line', count_only=True)['n_lines'] or 300
        k1 = prng.randrange(int(n0[key] * 0.8), n0[key] + 60)
        for k2 in range(1, cfg.get('handler_sweep_len', 26)):
            jobs.append(('line', scn, k1, k2, None))
    for j in range(cfg['sigint_runs']):
        backend = 'fork' if prng.random() < 0.75 else 'spawn'
        scn = make_scn(rep.seed, 200 + j % 11, backend, gated=True)
        kind = ['single', 'double', 'launch'][j % 3]
        if kind == 'launch':
            sig = {'at': 'launch', 'nth': prng.choice([1, 1, 2, 3]), 'double': False}
        else:
            sig = {'at': 'rest', 'rest': prng.choice([0, 0, 1, 2]), 'double': kind == 'double',
                   'delay': prng.choice([0.0, 0.02, 0.2, 0.45]), 'gap': prng.choice([0.1, 0.4, 0.7])}
        jobs.append(('sigint', scn, None, None, sig))
    return jobs


def run_job(rep, job):
    import json
    from vlab.dagcommon import scn_summary
    mode, scn, k1, k2, sig = job
    mp = mode == 'mpline'
    saveline = mode == 'saveline'
    if mp or saveline:
        mode = 'line'
    r = run_case(scn, mode, k1=k1, k2=k2, sig=sig, mp=mp)
    if any(k.startswith('hang@') for k, _ in r.get('bad', [])):
        # rule out a merely slow (overloaded) host before calling it a hang: same case, 4x the watchdog
        rep.count('hang_retries')
        r2 = run_case(scn, mode, k1=k1, k2=k2, sig=sig, watchdog=120, mp=mp)
        if r2.get('delivered') and not any(k.startswith('hang@') for k, _ in r2['bad']):
            rep.inconclusive('run returned only under the extended watchdog: slow host, not judged', {'job': [mode, k1, k2, sig]})
            return
        if r2.get('delivered'):
            r = r2
    if r.get('stray'):
        rep.inconclusive('stray KeyboardInterrupt reached the harness outside run_tasks', {'job': [mode, k1, k2, sig]})
        return
    if not r['delivered']:
        rep.count('interrupt_not_reached')
        return
    tag = 'double' if (k2 is not None or (sig and sig.get('double'))) else 'single'
    if k2 is not None and len(r['fired']) < 2:
        tag = 'single'
    rep.case([json.dumps(scn['spec'], sort_keys=True), scn['backend'], mode, k1, k2, json.dumps(sig)], True)
    rep.count('interrupts_delivered')
    rep.count(f'{"mpio" if mp else mode}_{scn["backend"]}_{tag}')
    if saveline:
        rep.count('line_serial_in_cache_py')
    for s in r['fired']:
        rep.seen('interrupt_sites', f"{s['file']}:{s['func']}")
        if s.get('delivered_in'):
            rep.seen('interrupt_delivery_frames', s['delivered_in'])
            if s['delivered_in'] != f"{s['file']}:{s['func']}":
                rep.count('interrupts_delivered_in_a_callee_or_later_frame')
    seen = set()
    for key, msg in r['bad']:
        if key not in seen:
            seen.add(key)
            rep.violation(key, msg, {'scenario': scn, 'mode': mode, 'k1': k1, 'k2': k2, 'sig': sig})
    if len(rep.samples) < 3:
        rep.sample({'backend': scn['backend'], 'mode': mode, 'k1': k1, 'k2': k2, 'sig': sig, 'interrupted_at': r['fired'],
                    'outcome': [k for k, _ in r['bad']] or 'KeyboardInterrupt, oracles held'})


def run_shard(rep):
    cfg = META['tiers'][rep.tier]
    rep.require('interrupts_delivered', 200)
    jobs = jobs_for(rep, cfg)
    if rep.shard == 0:
        rep.count('jobs_enumerated', len(jobs))
    done = True
    mine = jobs[rep.shard::rep.nshards]
    # slow (process) jobs first so that the time budget cuts the cheap serial tail, not them
    def kind(j):
        mode, scn, k1, k2, sig = j
        if mode == 'sigint':
            return 'sigint'
        if mode == 'mpline':
            return 'mpio'
        if mode == 'saveline':
            return 'a-saveline'
        if k2 is not None:
            return 'double'
        return 'line-' + scn['backend']
    groups = {}
    for j in mine:
        groups.setdefault(kind(j), []).append(j)
    mine = []
    while any(groups.values()):      # round-robin over job kinds so that a time cut hits every kind evenly
        for kd in sorted(groups):
            take = 5 if kd in ('line-serial', 'a-saveline') else 1
            mine += groups[kd][:take]
            del groups[kd][:take]
    for job in mine:
        if rep.expired():
            rep.count('skipped_for_time')
            done = False
            continue
        if sum(1 for v in rep.violations if v['key'].startswith('hang@')) >= 2:
            rep.count('stopped_after_repeated_hangs')
            break
        run_job(rep, job)
    rep.exhaustive = False


def replay(rep, wit):
    rep.case('a', True)
    rep.case('b', True)
    w = wit['witness']
    r = run_case(w['scenario'], w['mode'], k1=w.get('k1'), k2=w.get('k2'), sig=w.get('sig'))
    for key, msg in r['bad']:
        rep.violation(key, msg, w)
