"""C17 - intermediate results live exactly as long as a dependent needs them."""

META = {
    'level': 'exploration',
    'rule': ('Random DAGs x completion orders x dependency-only failure patterns x hash seeds under a pass-through '
             'spy around the real Serial/Fork/Spawn runners and under the sim runner (which executes run() at '
             'completion time); monitors: every remove_results call checked against the holders model (no release '
             'while a direct dependent is unfinished; everything whose last dependent just finished is released in '
             'the call that follows the yield), probe of the real runner after each release and at close() '
             '(get_result must raise KeyError), probe of dependency availability at every submit, get_result for '
             'requested tasks must not raise, dependency reads must not fail for untainted dependencies - also in a second run_tasks call (bust_cache) of the same Lab on the same task objects (40 % of the ungated runs). Distinct by '
             '(DAG, config, schedule seed, failing set); non-trivial when >= 1 shared dependency (>= 2 dependents) '
             'or a failure is present and >= 3 completions.'),
    'assumptions': ['Runner.get_result raising KeyError <=> no in-memory result (documented Runner API)'],
    'tiers': {
        'quick': {'shards': 16, 'budget_s': 40, 'n_sim': 2400, 'n_real': 200},
        'thorough': {'shards': 16, 'budget_s': 300, 'n_sim': 40000, 'n_real': 2400},
    },
}


def make_scn(rng, real):
    from vlab.dagcommon import gen_dag_scenario
    backend = rng.choice(['serial', 'serial', 'fork', 'fork', 'spawn']) if real else 'sim'
    kinds = ('raise:ValueError', 'kill') if backend not in ('serial',) else ('raise:ValueError',)
    scn = gen_dag_scenario(rng, backend=backend, shape=rng.choice(['fanin', 'diamond', 'layered', 'mix', 'fanout', None]),
                           nmax=rng.choice([5, 8, 11]), failing=rng.random() < 0.5, fail_kinds=kinds,
                           gated=(rng.random() < 0.5))
    sim_deaths = backend == 'sim' and any(a in ('kill', 'exit', 'exit0') for a in (scn.get('failing') or {}).values())
    if not scn.get('gated') and not sim_deaths and rng.random() < 0.4:
        # (the sim runner's planned deaths are a property of the runner object, which serves both calls)
        scn['second_run'] = {'failing': {}}
    return scn


def judge(rep, scn, out):
    from vlab import oracles
    from vlab.gen import dependents_of
    from vlab.props.dagprop import report_bad
    sec = getattr(out, 'second', None)
    if sec:
        out.trace.calls = out.trace.calls[:len(out.trace.calls) - len(sec['calls'])]
    bad, checks = oracles.c17(scn, out)
    if sec:
        # the same Lab runs the same task objects once more (bust_cache, nothing fails): every dependency read of
        # the second call must succeed - results are held by the runner of THAT call
        rep.count('second_calls_on_the_same_task_objects')
        if sec['exc']:
            bad.append((f"second-call-raised:{sec['exc'].get('type')}", f'second run_tasks call raised {sec["exc"]}'))
        for e in sec['events']:
            if e['k'] == 'read':
                checks += 1
                if 'raised' in e:
                    bad.append(('dependency-unreadable', f"second run_tasks call on the same task objects: {e['name']} "
                                f"could not read {e['dep']} ({e['raised']})"))
                    break
    rep.count('release_checks', checks)
    rep.count('remove_calls', sum(1 for c in out.trace.calls if c['op'] == 'remove'))
    rep.count('close_probes', 1 if out.exc is None else 0)
    if out.exc is not None:
        rep.foreign[f'run_tasks raised {type(out.exc).__name__}'] += 1
    report_bad(rep, scn, bad)
    dep = dependents_of(scn['spec'])
    shared = any(len(v) >= 2 for v in dep.values())
    ny = sum(1 for c in out.trace.calls if c['op'] == 'yield')
    return (shared or bool(scn.get('failing'))) and ny >= 3


def run_shard(rep):
    from vlab.props.dagprop import drive
    cfg = META['tiers'][rep.tier]
    rep.require('release_checks', 2000)
    rep.require('close_probes', 300)
    rep.require('second_calls_on_the_same_task_objects', 100)
    drive(rep, 'C17', make_scn=make_scn, judge=judge, n_sim=cfg['n_sim'], n_real=cfg['n_real'])


def replay(rep, wit):
    from vlab.props.dagprop import replay_with
    replay_with(rep, wit, judge)
