"""C17 - intermediate results live exactly as long as a dependent needs them."""

META = {
    'level': 'exploration',
    'rule': ('Random DAGs x completion orders x dependency-only failure patterns x hash seeds under a pass-through '
             'spy around the real Serial/Fork/Spawn runners and under the sim runner (which executes run() at '
             'completion time); monitors: every remove_results call checked against the holders model (no release '
             'while a direct dependent is unfinished; everything whose last dependent just finished is released in '
             'the call that follows the yield), probe of the real runner after each release and at close() '
             '(get_result must raise KeyError), probe of dependency availability at every submit, get_result for '
             'requested tasks must not raise, dependency reads must not fail for untainted dependencies. Distinct by '
             '(DAG, config, schedule seed, failing set); non-trivial when >= 1 shared dependency (>= 2 dependents) '
             'or a failure is present and >= 3 completions.'),
    'assumptions': ['Runner.get_result raising KeyError <=> no in-memory result (documented Runner API)'],
    'tiers': {
        'quick': {'shards': 16, 'budget_s': 40, 'n_sim': 2400, 'n_real': 200},
        'thorough': {'shards': 16, 'budget_s': 300, 'n_sim': 40000, 'n_real': 2400},
    },
}


def make_scn(rng, real):
    from vlab.dagcommon import gen_dag_scenario
    backend = rng.choice(['serial', 'serial', 'fork', 'fork', 'spawn']) if real else 'sim'
    kinds = ('raise:ValueError', 'kill') if backend not in ('serial',) else ('raise:ValueError',)
    scn = gen_dag_scenario(rng, backend=backend, shape=rng.choice(['fanin', 'diamond', 'layered', 'mix', 'fanout', None]),
                           nmax=rng.choice([5, 8, 11]), failing=rng.random() < 0.5, fail_kinds=kinds,
                           gated=(rng.random() < 0.5))
    return scn


def judge(rep, scn, out):
    from vlab import oracles
    from vlab.gen import dependents_of
    from vlab.props.dagprop import report_bad
    bad, checks = oracles.c17(scn, out)
    rep.count('release_checks', checks)
    rep.count('remove_calls', sum(1 for c in out.trace.calls if c['op'] == 'remove'))
    rep.count('close_probes', 1 if out.exc is None else 0)
    if out.exc is not None:
        rep.foreign[f'run_tasks raised {type(out.exc).__name__}'] += 1
    report_bad(rep, scn, bad)
    dep = dependents_of(scn['spec'])
    shared = any(len(v) >= 2 for v in dep.values())
    ny = sum(1 for c in out.trace.calls if c['op'] == 'yield')
    return (shared or bool(scn.get('failing'))) and ny >= 3


def run_shard(rep):
    from vlab.props.dagprop import drive
    cfg = META['tiers'][rep.tier]
    rep.require('release_checks', 2000)
    rep.require('close_probes', 300)
    drive(rep, 'C17', make_scn=make_scn, judge=judge, n_sim=cfg['n_sim'], n_real=cfg['n_real'])


def replay(rep, wit):
    from vlab.props.dagprop import replay_with
    replay_with(rep, wit, judge)
