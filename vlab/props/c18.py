"""C18 - local storage never reads, writes or deletes outside its directory."""

META = {
    'level': 'exploration',
    'rule': ('Adversarial key/filename strings concatenated from atoms (empty, ., .., /, backslash, NUL, newline, ~, '
             'existing keys, names of symlinks to an outside dir / outside file / sibling key / the storage dir / its '
             'parent, absolute paths to outside canaries, nested paths, unicode) x operations {exists, file_handle in '
             'r/w/a/x/rb/wb/r+/w+ (then read or write+close), delete} on a freshly built sandbox (storage dir with key '
             'dirs, plain file, symlinks; key dir containing file/dir symlinks pointing outside (existing and dangling targets) and a sub-directory; '
             'outside canary files and dirs; in 12 % of the single operations the storage is constructed from a RELATIVE path (pathlib.Path or str) and the working directory then changes to a place holding a same-named decoy directory); a quarter of the cases are multi-step histories on ONE sandbox / storage path / process (operations on a key, then the harness turns that key into a symlink to an outside directory, to the parent, to a sibling, into a plain file, or into a directory holding a file-symlink to outside, then more operations with the same or a new LocalStorage object). Monitors: full file-system snapshot (type, bytes, link target of every '
             'path under the sandbox) before/after each operation and a sys.addaudithook record of every open / '
             'mkdir / remove / rmdir / rename / rmtree / scandir / listdir under the sandbox during the operation; the '
             'thorough tier re-runs a sample under strace -f -e trace=%file and parses the syscall paths. Oracle: the '
             'operation raised, or not - in both cases outside canaries are byte-identical, every changed path lies '
             'under exactly one direct child of the storage dir (the one the key names, after symlink resolution) and, '
             'except for delete, is that child or a file directly in it; every audited path lies in that child (or '
             'is the storage dir itself for the key lookup). Distinct by (key, filename, op, mode); non-trivial when '
             'key or filename contains a separator, dot segment, NUL, absolute path or symlink name.'),
    'assumptions': ['a key that is a symlink to a sibling key directory names that sibling (resolution semantics of '
                    'LocalStorage._key_to_path)', 'stat()/lstat() of outside paths during resolution is not an "open"'],
    'tiers': {
        'quick': {'shards': 16, 'budget_s': 40, 'n': 16000},
        'thorough': {'shards': 16, 'budget_s': 200, 'n': 400000, 'strace_batches': 16},
    },
}

_REC = {'armed': False, 'base': None, 'events': [], 'installed': False}
_EVENTS = ('open', 'os.mkdir', 'os.remove', 'os.rmdir', 'os.rename', 'shutil.rmtree', 'os.scandir', 'os.listdir',
           'os.symlink', 'os.truncate', 'os.chmod', 'os.link', 'shutil.copyfile', 'shutil.move')


def _hook(event, args):
    if _REC['armed'] and event in _EVENTS:
        try:
            p = args[0]
            if isinstance(p, bytes):
                p = p.decode('utf-8', 'replace')
            if isinstance(p, int):
                return
            p = str(p)
        except Exception:
            return
        _REC['events'].append((event, p))


def build_sandbox(base):
    import os
    out = os.path.join(base, 'outside')
    st = os.path.join(base, 'storage')
    os.makedirs(os.path.join(out, 'odir'))
    with open(os.path.join(out, 'secret.txt'), 'w') as f:
        f.write('SECRET')
    with open(os.path.join(out, 'odir', 'inner.txt'), 'w') as f:
        f.write('INNER')
    os.makedirs(os.path.join(st, 'k1', 'sub'))
    os.makedirs(os.path.join(st, 'k2'))
    os.makedirs(os.path.join(st, 'k10'))
    os.makedirs(os.path.join(st, 'k'))
    for k in ('k1', 'k2', 'k10', 'k'):
        with open(os.path.join(st, k, 'metadata.json'), 'w') as f:
            f.write('{"k": "%s"}' % k)
        with open(os.path.join(st, k, 'data.pickle'), 'wb') as f:
            f.write(b'DATA' + k.encode())
    with open(os.path.join(st, 'k1', 'sub', 'f'), 'w') as f:
        f.write('subfile')
    with open(os.path.join(st, 'plainfile'), 'w') as f:
        f.write('plain')
    with open(os.path.join(st, '.gitignore'), 'w') as f:
        f.write('*\n')
    os.symlink(os.path.join('..', 'outside', 'odir'), os.path.join(st, 'linkout'))
    os.symlink('k1', os.path.join(st, 'linksib'))
    os.symlink('.', os.path.join(st, 'linkself'))
    os.symlink('..', os.path.join(st, 'linkparent'))
    os.symlink(os.path.join('..', 'outside', 'secret.txt'), os.path.join(st, 'linkfile'))
    os.symlink(os.path.join('..', '..', 'outside', 'secret.txt'), os.path.join(st, 'k1', 'flinkout'))
    os.symlink('metadata.json', os.path.join(st, 'k1', 'flinkin'))
    os.symlink(os.path.join('..', '..', 'outside', 'odir'), os.path.join(st, 'k1', 'dlinkout'))
    os.symlink(os.path.join('..', 'k2', 'data.pickle'), os.path.join(st, 'k1', 'flinksib'))
    # dangling links: the target does not exist (yet), its parent directory does
    os.symlink(os.path.join('..', '..', 'outside', 'victim.txt'), os.path.join(st, 'k1', 'fdangle_out'))
    os.symlink(os.path.join('..', '..', 'outside', 'odir', 'victim2.txt'), os.path.join(st, 'k2', 'metadata2.json'))
    os.symlink('not-there-yet.txt', os.path.join(st, 'k1', 'fdangle_in'))
    os.symlink(os.path.join('..', 'outside', 'newdir'), os.path.join(st, 'kdangle'))
    return st, out


def snapshot(base):
    import hashlib
    import os
    snap = {}
    for root, dirs, files in os.walk(base, followlinks=False):
        for name in dirs + files:
            p = os.path.join(root, name)
            rel = os.path.relpath(p, base)
            if os.path.islink(p):
                snap[rel] = ('link', os.readlink(p))
            elif os.path.isdir(p):
                snap[rel] = ('dir',)
            else:
                with open(p, 'rb') as f:
                    snap[rel] = ('file', hashlib.sha1(f.read()).hexdigest())
    return snap


KEY_ATOMS = ['kdangle', '', '.', '..', '/', '\\', '\0', '\n', '~', 'k1', 'k2', 'new', 'linkout', 'linksib', 'linkself',
             'linkparent', 'linkfile', 'plainfile', '@OUT', '@OUT/odir', '@ST/k1', 'k1/sub', '../outside/odir', 'k1/..',
             'é', ' ', 'k1/', './k1', 'k1/.', '..\\outside', 'new2', '.gitignore', 'K1', '*', 'k1\\sub',
             # characters that only LOOK like (or normalise to: NFKC) a dot, a slash or a backslash; as they stand
             # they are ordinary name characters
             '\u2025', '\uff0e', '\uff0f', '\uff3c', '\u2024', 'k1\uff0f\u2025\uff0fk2', '\u2025\uff0foutside\uff0fodir',
             '\uff0e\uff0e', 'k\u00b9', '\ufb01le']
FILE_ATOMS = ['fdangle_out', 'fdangle_in', 'metadata2.json', '', '.', '..', '/', 'metadata.json', 'data.pickle', 'new.txt', 'flinkout', 'flinkin', 'dlinkout',
              'flinksib', 'sub', 'sub/f', '../k2/x', '../k2/metadata.json', '@OUT/secret.txt', '..\\x', 'a\0b', '~',
              'k1', 'dlinkout/inner.txt', 'dlinkout/new', './metadata.json', 'sub/../metadata.json', 'é.txt', ' ',
              '../../outside/secret.txt', '../plainfile', 'x/y',
              '\u2025\uff0fk2\uff0fmetadata.json', '\uff0e\uff0e\uff0fplainfile', 'metadata\uff0ejson', '\u2025']
MODES = ['r', 'w', 'a', 'x', 'rb', 'wb', 'r+', 'w+', 'ab']


def gen_case(rng):
    def cat(atoms, valid):
        r = rng.random()
        if r < 0.3:
            return rng.choice(valid)
        n = 1 if r < 0.75 else rng.choice([2, 2, 3])
        return ''.join(rng.choice(atoms) for _ in range(n))
    op = rng.choice(['exists', 'file_handle', 'file_handle', 'file_handle', 'delete'])
    case = {'op': op, 'key': cat(KEY_ATOMS, ['k1', 'k2', 'new', 'linksib'])}
    if rng.random() < 0.12:
        case['relative'] = rng.choice(['path', 'str'])
        if rng.random() < 0.7:
            case['key'] = rng.choice(['k1', 'k2', 'new'])
    if op == 'file_handle':
        case['filename'] = cat(FILE_ATOMS, ['metadata.json', 'new.txt', 'data.pickle', 'flinkin', 'fdangle_out', 'fdangle_in'])
        case['mode'] = rng.choice(MODES)
    return case


def subst(s, st, out):
    return s.replace('@OUT', out).replace('@ST', st)


def do_step(storage, step, st, out, base, marks=False):
    """Performs one LocalStorage operation and judges it. Returns (bad, info)."""
    import os
    key = subst(step['key'], st, out)
    fn = subst(step.get('filename', ''), st, out)
    before = snapshot(base)
    _REC['events'] = []
    _REC['armed'] = True
    raised = None
    result = None
    if marks:
        os.path.exists('/VLAB-OP-BEGIN')     # visible in an strace of this process
    try:
        if step['op'] == 'exists':
            result = storage.exists(key)
        elif step['op'] == 'delete':
            storage.delete(key)
        else:
            fh = storage.file_handle(key, fn, mode=step['mode'])
            try:
                m = step['mode']
                if 'r' in m and '+' not in m:
                    fh.read()
                else:
                    fh.write(b'NEW' if 'b' in m else 'NEW')
            finally:
                fh.close()
    except BaseException as ex:   # noqa
        raised = type(ex).__name__
    finally:
        _REC['armed'] = False
        if marks:
            os.path.exists('/VLAB-OP-END')
    events = list(_REC['events'])
    after = snapshot(base)
    bad = []
    changed = sorted(p for p in set(before) | set(after) if before.get(p) != after.get(p))
    # the one direct child this key may touch (judged on the layout as it was when the operation started)
    allowed = step.get('_allowed')
    for p in changed:
        parts = p.split(os.sep)
        if parts[0] != 'storage':
            bad.append(('outside-modified', f'{step}: path outside the storage dir changed: {p}: '
                        f'{before.get(p)} -> {after.get(p)}'))
        elif len(parts) < 2 or parts[1] != allowed:
            bad.append(('other-entry-modified', f'{step}: changed {p}, but the key names child {allowed!r}'))
        elif step['op'] != 'delete' and len(parts) > 3:
            bad.append(('nested-path-modified', f'{step}: changed {p}, deeper than a file directly in the key dir'))
        elif step['op'] == 'exists':
            bad.append(('exists-modified', f'{step}: exists() changed {p}'))
    real_base = os.path.realpath(base)
    for ev, p in events:
        if not os.path.isabs(p):
            continue      # dir_fd-relative operation (shutil.rmtree): not resolvable here; the snapshot diff judges it
        try:
            ap = os.path.realpath(p)
        except (OSError, ValueError):
            continue
        if not (ap == real_base or ap.startswith(real_base + os.sep)):
            continue      # interpreter internals elsewhere on the machine
        rel = os.path.relpath(ap, real_base).split(os.sep)
        if rel[0] != 'storage':
            bad.append(('outside-accessed', f'{step}: {ev}({p}) resolves outside the storage dir: {ap}'))
        elif len(rel) >= 2 and rel[1] != allowed:
            bad.append(('other-entry-accessed', f'{step}: {ev}({p}) touches child {rel[1]!r}, key names {allowed!r}'))
    return bad, {'raised': raised, 'changed': changed, 'events': len(events), 'result': result}


def allowed_child(st, key):
    import os
    if key and '/' not in key and '\0' not in key:
        try:
            rp = os.path.realpath(os.path.join(st, key))
            if os.path.dirname(rp) == os.path.realpath(st):
                return os.path.basename(rp)
        except (OSError, ValueError):
            return None
    return None


def mutate_layout(kind, st, out, key):
    """Harness-side layout change between two operations (what another program, or the user, may do)."""
    import os
    import shutil
    p = os.path.join(st, key)
    if os.path.islink(p) or os.path.isfile(p):
        os.unlink(p)
    elif os.path.isdir(p):
        shutil.rmtree(p)
    if kind == 'key-to-outside-dir':
        os.symlink(os.path.join(out, 'odir'), p)
    elif kind == 'key-to-parent':
        os.symlink('..', p)
    elif kind == 'key-to-sibling':
        os.symlink('k2', p)
    elif kind == 'key-to-file':
        with open(p, 'w') as f:
            f.write('now a file')
    elif kind == 'key-dir-with-outside-file-link':
        os.mkdir(p)
        os.symlink(os.path.join(out, 'secret.txt'), os.path.join(p, 'data.pickle'))
    elif kind == 'key-removed':
        pass


def run_case(case, base=None, marks=False):
    """Single operation ({'op', 'key', ...}) or a sequence ({'steps': [...]}) on one sandbox / one storage path.
    Returns (bad, info)."""
    import os
    import shutil
    import sys
    import tempfile
    from labtech.storage import LocalStorage
    own = base is None
    if own:
        base = tempfile.mkdtemp(prefix='vlab-c18-')
    if not _REC['installed']:
        sys.addaudithook(_hook)
        _REC['installed'] = True
    cwd0 = os.getcwd()
    try:
        st, out = build_sandbox(base)
        if case.get('relative'):
            # the storage is given as a RELATIVE pathlib.Path; afterwards the program changes its working directory
            # to a place that has a same-named directory with the same keys (decoy, must stay untouched)
            from pathlib import Path
            decoy = os.path.join(out, 'cwd2')
            shutil.copytree(st, os.path.join(decoy, 'storage'), symlinks=True)
            os.chdir(base)
            storage = LocalStorage(Path('storage') if case['relative'] == 'path' else 'storage', with_gitignore=False)
            os.chdir(decoy)
        else:
            storage = LocalStorage(st, with_gitignore=False)
        steps = case.get('steps') or [case]
        bad, info = [], {'raised': None, 'changed': [], 'events': 0, 'result': None, 'steps': 0}
        for step in steps:
            if 'mutate' in step:
                mutate_layout(step['mutate'], st, out, step['key'])
                continue
            if step.get('new_storage_object') and not case.get('relative'):
                storage = LocalStorage(st, with_gitignore=False)
            step = dict(step, _allowed=allowed_child(st, subst(step['key'], st, out)))
            b, i = do_step(storage, step, st, out, base, marks)
            bad += b
            info['steps'] += 1
            info['events'] += i['events']
            info['changed'] += i['changed']
            info['raised'] = i['raised']
            if b:
                break
        return bad, info
    finally:
        _REC['armed'] = False
        os.chdir(cwd0)
        if own:
            shutil.rmtree(base, ignore_errors=True)


def gen_sequence(rng):
    """Multi-step history on one storage path: a key is used legitimately, then the layout changes under it."""
    key = rng.choice(['new', 'k1', 'k2', 'seqkey'])
    steps = []
    def op():
        o = rng.choice(['exists', 'file_handle', 'file_handle', 'delete'])
        s = {'op': o, 'key': key, 'new_storage_object': rng.random() < 0.3}
        if o == 'file_handle':
            s['filename'] = rng.choice(['metadata.json', 'data.pickle', 'new.txt', 'inner.txt'])
            s['mode'] = rng.choice(['r', 'w', 'a', 'rb', 'wb'])
        return s
    for _ in range(rng.randrange(1, 3)):
        steps.append(op())
    steps.append({'mutate': rng.choice(['key-to-outside-dir', 'key-to-outside-dir', 'key-to-parent', 'key-to-sibling',
                                        'key-to-file', 'key-dir-with-outside-file-link', 'key-removed']), 'key': key})
    for _ in range(rng.randrange(1, 4)):
        steps.append(op())
    return {'steps': steps}


def strace_batch(rep, cases):
    """Syscall-level cross-check: run a batch under strace and look for any
    path-taking syscall that names (after resolution by -y/-yy not needed: we
    resolve ourselves) something outside the storage dir but inside the sandbox."""
    import json
    import os
    import re
    import shutil
    import subprocess
    import sys
    import tempfile
    if shutil.which('strace') is None:
        rep.count('strace_unavailable')
        return
    base = tempfile.mkdtemp(prefix='vlab-c18s-')
    try:
        job = os.path.join(base, 'job.json')
        json.dump(cases, open(job, 'w'))
        trace = os.path.join(base, 'trace.txt')
        env = dict(os.environ)
        r = subprocess.run(['strace', '-f', '-e', 'trace=%file', '-o', trace, sys.executable, '-m', 'vlab.props.c18',
                            job, os.path.join(base, 'sb')], env=env, capture_output=True, timeout=300)
        if r.returncode != 0 or not os.path.exists(trace):
            rep.count('strace_failed')
            return
        marks = re.compile(r'"([^"]*)"')
        writes = ('O_WRONLY', 'O_RDWR', 'O_CREAT', 'unlink', 'rmdir', 'rename', 'mkdir', 'truncate', 'symlink', 'link(')
        n = 0
        inside = {}
        for ln in open(trace, errors='replace'):
            pid = ln.split(' ', 1)[0]
            if 'VLAB-OP-BEGIN' in ln:
                inside[pid] = True
                continue
            if 'VLAB-OP-END' in ln:
                inside[pid] = False
                continue
            if not inside.get(pid) or '/sb/' not in ln or ' = -1 ' in ln:
                continue
            n += 1
            call = ln.split('(', 1)[0].split()[-1]
            for p in marks.findall(ln):
                if '/sb/' not in p:
                    continue
                rel = p.split('/sb/', 1)[1].split('/')
                if len(rel) >= 2 and rel[1] == 'outside' and call in (
                        'openat', 'open', 'unlink', 'unlinkat', 'rmdir', 'rename', 'renameat', 'renameat2', 'mkdir',
                        'mkdirat', 'truncate', 'creat', 'symlink', 'symlinkat', 'link', 'linkat', 'chmod', 'fchmodat'):
                    rep.violation('outside-syscall', f'strace: {ln.strip()[:300]}', {'cases': cases[:50]})
        rep.count('strace_syscalls_checked', n)
        rep.count('strace_cases', len(cases))
    except subprocess.TimeoutExpired:
        rep.count('strace_timeout')
    finally:
        shutil.rmtree(base, ignore_errors=True)


def run_shard(rep):
    import json
    import random
    cfg = META['tiers'][rep.tier]
    rep.require('ops_raised', 1000)
    rep.require('ops_succeeded', 1000)
    rep.require('sequences', 500)
    sample = []
    for j in range(rep.shard, cfg['n'], rep.nshards):
        if rep.expired():
            rep.count('skipped_for_time')
            break
        rng = random.Random(f'{rep.seed}:C18:{j}')
        seq = rng.random() < 0.25
        case = gen_sequence(rng) if seq else gen_case(rng)
        bad, info = run_case(case)
        if seq:
            rep.count('sequences')
            rep.count('sequence_steps', info['steps'])
            rep.case(json.dumps(case, sort_keys=True), True)
            seen = set()
            for key, msg in bad:
                if key not in seen:
                    seen.add(key)
                    rep.violation(key + '/sequence', msg + f' :: history {case["steps"]}', {'case': case})
            if len(sample) < 400:
                sample.append(case)
            continue
        hostile = any(c in case['key'] + case.get('filename', '') for c in ('/', '\\', '.', '\0', '@', 'link', '~'))
        rep.case(json.dumps(case, sort_keys=True), hostile)
        rep.count('ops_raised' if info['raised'] else 'ops_succeeded')
        rep.count('op_' + case['op'])
        if info['raised']:
            rep.seen('error_types', info['raised'])
        rep.count('paths_changed', len(info['changed']))
        rep.count('audit_events', info['events'])
        seen = set()
        for key, msg in bad:
            if key not in seen:
                seen.add(key)
                rep.violation(key, msg, {'case': case})
        if len(sample) < 400:
            sample.append(case)
        if len(rep.samples) < 3 and hostile and not info['raised']:
            rep.sample({'case': case, 'changed': info['changed']})
    if rep.tier == 'thorough':
        strace_batch(rep, sample)


def replay(rep, wit):
    rep.case('a', True)
    rep.case('b', True)
    w = wit['witness']
    for case in ([w['case']] if 'case' in w else w.get('cases', [])):
        for key, msg in run_case(case)[0]:
            rep.violation(key, msg, {'case': case})


if __name__ == '__main__':
    # strace child: run a batch of cases, one sandbox each, under <dir>/<i>/
    import json
    import os
    import sys
    cases = json.load(open(sys.argv[1]))
    root = sys.argv[2]
    for i, c in enumerate(cases):
        b = os.path.join(root, str(i))
        os.makedirs(b)
        run_case(c, base=b, marks=True)
