"""C09 - cached_tasks reconstructs every cached task faithfully."""

META = {
    'level': 'exploration',
    'rule': ('Per case: 2-7 top-level tasks of types {VA, VB, VAX (prefix-named), tasks_alt.VA (same qualified name), '
             'VJ (JSON cache format), VP} with parameter trees from the value grammar (scalars, enums, tuples, dicts, '
             'nested tasks inside collections, depth <= 4) are run into one storage (LocalStorage or fsspec-local); '
             'then cached_tasks is called for every single type, prefix pairs and the full list. Oracle: the returned '
             'multiset == the harness-computed set of cached tasks of exactly those types (top-level and nested, by '
             'harness walk), each equal to the original, same cache_key, result_meta == the meta recorded by the '
             'run; running the returned tasks executes nothing (no vstart event) and returns the stored values. '
             'Distinct by the set of canonical identities; non-trivial when some task holds a nested task or enum '
             'inside a collection, or two cache formats / prefix-named types share the storage.'),
    'assumptions': ['NaN excluded; subclass-of-task types excluded (statement does not fix their listing)',
                    'marker-imitating dict parameters are a separate class keyed marker-dict-collision'],
    'tiers': {
        'quick': {'shards': 16, 'budget_s': 40, 'n': 1600},
        'thorough': {'shards': 16, 'budget_s': 300, 'n': 30000},
    },
}


def all_tasks(tops):
    """Harness walk: every task instance reachable (deduplicated by equality)."""
    from vlab.body import walk_deps
    import json
    from vlab.valgen import obj_ident
    seen = {}
    stack = list(tops)
    while stack:
        t = stack.pop()
        k = json.dumps(obj_ident(t))
        if k in seen:
            continue
        seen[k] = t
        stack.extend(walk_deps(t))
    return list(seen.values())


def python_equal_collision(universe):
    """Two tasks with different typed identity that Python considers equal
    (1 == 1.0 == True): labtech treats them as one task within a run; that
    corner is outside this property."""
    for i, a in enumerate(universe):
        for b in universe[i + 1:]:
            if type(a) is type(b) and a == b:
                return True
    return False


def one(rep, rng, j, fixed=None):
    import importlib
    import json
    import os
    import labtech
    from vlab import engine, events, valgen
    from vlab.props.c07 import build
    from vlab.storages import make_storage
    ctl = engine.new_ctl('vlab-c09-')
    engine.quiet_labtech()
    try:
        skind = rng.choice(['local', 'local', 'fsspec-local'])
        store = os.path.join(ctl, 'store')
        lab = labtech.Lab(storage=make_storage(skind, store), runner_backend='serial')
        descs = []
        marker = rng.random() < 0.04
        if fixed is not None:
            skind = fixed.get('storage', 'local')
            lab = labtech.Lab(storage=make_storage(skind, store), runner_backend='serial')
            marker = '"m"' in json.dumps(fixed['descs'])
        for _ in range(rng.randrange(2, 8) if fixed is None else 0):
            m, c = rng.choice(valgen.TASKS)
            p = valgen.gen_value(rng, rng.choice([1, 2, 3, 4]))
            if marker and rng.random() < 0.5:
                p = {'d': [['x', {'m': 'enum', 'of': list(rng.choice(valgen.ENUMS))}]]}
            q = valgen.gen_value(rng, 1) if rng.random() < 0.3 else {'s': None}
            descs.append([m, c, p, q])
        if fixed is None and descs and rng.random() < 0.15:
            # a second task that Python considers EQUAL to an existing one but that is written differently
            # (1 / 1.0 / True, dict items in another order): another cache key, hence another entry
            base = rng.choice(descs)
            pe = valgen.python_equal_respell(rng, {'task': list(base)})
            if pe is not None:
                descs.append(pe['task'])
        if fixed is not None:
            descs = fixed['descs']
        wit = {'descs': descs, 'storage': skind}
        tops = [build(*d) for d in descs]
        separate = python_equal_collision(all_tasks(tops))
        if separate:
            # tasks that differ only in scalar type (1 / 1.0 / True) are ONE task for Python within a single
            # run_tasks call; cached by separate calls they are separate entries and must all be listed
            if any(python_equal_collision(all_tasks([t])) for t in tops):
                rep.count('skipped_python_equal_collision_inside_one_task')
                return
            rep.count('cases_with_python_equal_tasks_cached_by_separate_calls')
            for t in tops:
                lab.run_tasks([t], disable_progress=True, disable_top=True)
        else:
            lab.run_tasks(tops, disable_progress=True, disable_top=True)
        universe = all_tasks(tops)
        marker_tasks = [t for t, d in zip(tops, descs) if '"m"' in json.dumps(d[2])]

        def is_marker(t):
            return any(t is mt or (type(t) is type(mt) and t == mt) for mt in marker_tasks)
        def tk(t):
            return (type(t).__module__, type(t).__qualname__, t.cache_key)
        orig_meta = {}
        stack, seen_ids = list(tops), set()
        from vlab.body import walk_deps as _wd
        while stack:        # every instance (not only one representative): an instance inside a task that was
            x = stack.pop()  # loaded from the cache is legitimately unmarked, its twin elsewhere is marked
            if id(x) in seen_ids:
                continue
            seen_ids.add(id(x))
            if x.result_meta is not None:
                orig_meta.setdefault(tk(x), x.result_meta)
            stack.extend(_wd(x))
        for t in universe:
            orig_meta.setdefault(tk(t), None)
        values = {}
        for t in universe:
            values[tk(t)] = ('val', type(t).__module__, type(t).__qualname__, t.cache_key)
        has_nested_coll = any(('task' in json.dumps(d[2]) or '"e"' in json.dumps(d[2])) and
                              any(k in d[2] for k in ('l', 't', 'd', 'fd')) for d in descs)
        types_present = sorted({(type(t).__module__, type(t).__qualname__) for t in universe})
        mixed = len({c for _, c in types_present}) < len(types_present) or \
            any(a[1] != b[1] and b[1].startswith(a[1]) for a in types_present for b in types_present) or \
            any(c == 'VJ' for _, c in types_present)
        rep.case(sorted(json.dumps(valgen.task_ident(*d)) for d in descs), has_nested_coll or mixed)
        rep.count('tasks_cached', len(universe))
        if has_nested_coll:
            rep.count('cases_with_nested_task_or_enum_in_collection')
        if marker:
            rep.count('marker_cases')
        allT = [getattr(importlib.import_module(m), c) for m, c in valgen.TASKS]
        lists = [[T] for T in allT] + [allT]
        core = importlib.import_module('vlab.tasks_core')
        alt = importlib.import_module('vlab.tasks_alt')
        lists += [[core.VA, core.VAX], [core.VAX, core.VA], [alt.VA, core.VA], [core.VJ, core.VA], [core.VA, core.VA]]
        pre_events = len(events.read_events(ctl))
        lab2_backend = (fixed.get('backend2', 'serial') if fixed is not None else
                        rng.choice(['serial'] * 26 + ['fork'] * 3 + ['spawn']))
        wit['backend2'] = lab2_backend
        lab2 = labtech.Lab(storage=make_storage(skind, store), runner_backend=lab2_backend, max_workers=2)
        for tl in lists:
            rep.count('cached_tasks_calls')
            try:
                got = list(lab2.cached_tasks(tl))
            except BaseException as ex:   # noqa
                key = 'marker-dict-collision' if marker_tasks else f'cached_tasks-raised:{type(ex).__name__}'
                rep.violation(key, f'cached_tasks({[T.__name__ for T in tl]}) raised {type(ex).__name__}: {ex}', wit)
                continue
            want = [t for t in universe if type(t) in tl]
            for t in want:
                matches = [g for g in got if type(g) is type(t) and g == t]
                if separate:
                    # several python-equal entries may exist: the one for t is the equal task with t's own key
                    matches = [g for g in matches if g.cache_key == t.cache_key]
                if len(matches) != 1:
                    same_key = [g for g in got if getattr(g, 'cache_key', None) == t.cache_key]
                    key = 'marker-dict-collision' if is_marker(t) else \
                        ('reconstructed-unequal' if same_key and not matches else
                         ('returned-twice' if len(matches) > 1 else 'cached-task-missing'))
                    rep.violation(key, f'cached_tasks({[T.__name__ for T in tl]}): original {t!r} matched by '
                                  f'{len(matches)} returned tasks; same-key returned: {same_key!r}'[:900], wit)
                    continue
                g = matches[0]
                rep.count('reconstructions_checked')
                if g.cache_key != t.cache_key:
                    rep.violation('reconstructed-key-differs', f'{g!r}: {g.cache_key} != {t.cache_key}', wit)
                if g.result_meta != orig_meta[tk(t)] or g.result_meta is None:
                    rep.violation('reconstructed-meta-differs', f'{g!r}: result_meta {g.result_meta} != stored '
                                  f'{orig_meta[tk(t)]}', wit)
            for g in got:
                if not any(type(g) is type(t) and g == t for t in want):
                    if type(g) not in tl:
                        rep.violation('foreign-type-returned', f'cached_tasks({[T.__name__ for T in tl]}) returned '
                                      f'{g!r} of type {type(g).__module__}.{type(g).__qualname__}', wit)
                    elif not any(getattr(g, 'cache_key', None) == t.cache_key for t in want):
                        rep.violation('uncached-task-returned', f'cached_tasks returned {g!r} which was never cached', wit)
            if tl is lists[len(allT)] or (len(tl) == 1 and lab2_backend == 'serial'):
                # running the returned tasks must load, not execute
                ok_got = [g for g in got if any(type(g) is type(t) and g == t for t in want)]
                for batch in ([[g] for g in ok_got] if separate else [ok_got]):
                    if not batch:
                        continue
                    try:
                        res2 = lab2.run_tasks(batch, disable_progress=True, disable_top=True)
                    except BaseException as ex:   # noqa
                        rep.violation(f'rerun-raised:{type(ex).__name__}', f'run_tasks(cached_tasks(..)) raised {ex}', wit)
                    else:
                        for g in batch:
                            rep.count('reloads_checked')
                            v = res2.get(g)
                            if v is None or tuple(v) != values.get(tk(g)):
                                rep.violation('reload-wrong-value', f'{g!r} loaded {v}, stored {values.get(tk(g))}', wit)
        if lab2_backend != 'serial':
            engine.reap_children()
        execs = [e for e in events.read_events(ctl)[pre_events:] if e['k'] == 'vstart']
        if execs:
            rep.violation('reload-executed', f'running the returned tasks executed {len(execs)} task(s) again', wit)
        if not separate and not marker_tasks and (fixed.get('phase2') if fixed is not None else (lab2_backend != 'serial' or rng.random() < 0.1)):
            phase2(rep, rng, lab2_backend, lab2, descs, allT, wit, tk)
        if len(rep.samples) < 2 and has_nested_coll:
            rep.sample({'storage': skind, 'tasks': [repr(t)[:200] for t in tops[:3]], 'cached_universe': len(universe)})
    finally:
        import shutil
        shutil.rmtree(ctl, ignore_errors=True)


def phase2(rep, rng, backend, lab, descs, allT, wit, tk):
    """The entries are replaced (bust_cache, executed by `backend` - in worker processes for fork/spawn) through
    the very Lab that has just listed them; the next listing must show the result_meta that is stored NOW, and
    entries removed afterwards must disappear from it."""
    from vlab import engine
    from vlab.body import walk_deps
    from vlab.props.c07 import build
    wit = dict(wit, phase2=True)
    tops = [build(*d) for d in descs]
    try:
        lab.run_tasks(tops, bust_cache=True, disable_progress=True, disable_top=True)
    except BaseException as ex:   # noqa
        rep.violation(f'rerun-raised:{type(ex).__name__}', f'run_tasks(bust_cache=True) raised {ex}', wit)
        return
    finally:
        if backend != 'serial':
            engine.reap_children()
    new_meta = {}
    stack, seen_ids = list(tops), set()
    while stack:
        x = stack.pop()
        if id(x) in seen_ids:
            continue
        seen_ids.add(id(x))
        if x.result_meta is not None:
            new_meta.setdefault(tk(x), x.result_meta)
        stack.extend(walk_deps(x))
    universe = all_tasks(tops)
    rep.count('phase2_cases')
    rep.seen('phase2_backends', backend)

    def listing(after, expect):
        got = list(lab.cached_tasks(allT))
        for t in universe:
            matches = [g for g in got if type(g) is type(t) and g == t]
            want_n = 1 if tk(t) in expect else 0
            if len(matches) != want_n:
                rep.violation('cached-task-missing' if len(matches) < want_n else
                              ('returned-twice' if want_n else 'uncached-task-returned'),
                              f'{after}: {t!r} matched by {len(matches)} returned tasks, expected {want_n}'[:600], wit)
                continue
            if not want_n:
                continue
            rep.count('phase2_reconstructions_checked')
            g = matches[0]
            if g.result_meta != expect[tk(t)] or g.result_meta is None:
                rep.violation('reconstructed-meta-stale', f'{after} ({backend}): {g!r} is listed with result_meta '
                              f'{g.result_meta}, the entry now stored was written by the execution {expect[tk(t)]}'[:700], wit)
    listing('after replacing every entry with bust_cache', new_meta)
    drop = [t for t in universe if rng.random() < 0.4]
    if drop:
        lab.uncache_tasks(drop)
        gone = {tk(t) for t in drop}
        listing(f'after uncache_tasks of {len(drop)} task(s)', {k: v for k, v in new_meta.items() if k not in gone})


def mainscript_case(rep, backend, seed):
    """Task types defined in the running script (__main__; __mp_main__ in a spawned worker): what cached_tasks lists
    must be what the storage holds, key by key, through a seeded run/bust/uncache history (model inside the script)."""
    from vlab.mainscript_run import run_mainscript
    wit = {'mainscript': [backend, seed]}
    st, x = run_mainscript(backend, seed)
    if st == 'timeout':
        rep.inconclusive(f'main-script history ({backend}, seed {seed}): timed out', wit)
        return
    if st == 'failed':
        rep.violation('script-tasks-run-failed', f'main-script history ({backend}): the script failed: {x}', wit)
        return
    rep.count('mainscript_histories')
    rep.case(['mainscript', backend, seed], len(x['obs']['ops']) >= 2)
    for key, msg in x['bad']:
        if key in ('cached_tasks-keyset-differs', 'storage-keys-differ'):
            rep.violation('reconstructed-key-differs', f'task types defined in the main script ({backend}): the keys '
                          f'cached_tasks reports are not the keys the entries are stored under: {msg}', wit)
            break


def run_shard(rep):
    from vlab.dagcommon import scenario_rng
    cfg = META['tiers'][rep.tier]
    rep.require('mainscript_histories', 10)
    for r in range(1 if rep.tier == 'quick' else 3):
        mainscript_case(rep, ['spawn', 'fork', 'spawn', 'serial'][(rep.shard + r) % 4], rep.seed * 1000 + 700 + rep.shard * 10 + r)
    rep.require('reconstructions_checked', 2000)
    rep.require('cases_with_nested_task_or_enum_in_collection', 100)
    rep.require('reloads_checked', 1000)
    rep.require('phase2_reconstructions_checked', 200)
    for j in range(rep.shard, cfg['n'], rep.nshards):
        if rep.expired():
            rep.count('skipped_for_time')
            continue
        one(rep, scenario_rng(rep.seed, 'C09', j), j)


def replay(rep, wit):
    import random
    rep.case('a', True)
    rep.case('b', True)
    if 'mainscript' in wit['witness']:
        mainscript_case(rep, *wit['witness']['mainscript'])
        return
    one(rep, random.Random(0), 0, fixed=wit['witness'])
