"""C13 - killing a task mid-save cannot poison the cache."""

META = {
    'level': 'fault_enumeration',
    'rule': ('The process executing the victim task is killed at every enumerated point of its save: each executed '
             'labtech line of the save path (LINE failpoint with action SIGKILL; first pass counts the lines), each '
             'write() call boundary of metadata and data file and a mid-write split (first half written), with the '
             'buffer either flushed+fsynced or abandoned; SIGTERM instead of SIGKILL on a sample, a SIGINT sent to the fork worker itself in the middle of its save (it must be ignored and the save completed), and the real terminate-on-second-interrupt path (fork worker parks at line k of its save, the caller receives two real SIGINTs, Runner.stop() terminates it - also in a program whose inherited SIGTERM handler calls sys.exit, where the terminated worker must clean up after itself), and SIGTERM delivered to a fork worker whose program installed a SIGTERM handler calling sys.exit (the worker unwinds through the exception handlers of labtech); x cache format '
             '{pickle, json; for the graceful terminations also a pickle-cached type whose post_init rewrites a parameter} x {first save, overwrite} x shape {small, big} x victim {process running the serial '
             'backend (a forked sacrificial copy of the harness; a fresh interpreter on a sample), fork worker whose '
             'parent survives}. The verdict is taken afterwards by a process that never ran the save: is_cached, '
             'cached_tasks and run_tasks of the victim entry, plus the bystander entry saved just before. Oracle: not '
             'reported, or reported and loads the old/new value. A violation whose post-kill file-system signature '
             'shows an incomplete entry (metadata absent/empty/partial or data absent/empty/partial) is the known '
             'finding incomplete-entry-reported-cached/{first,overwrite}; any other bad outcome (complete-looking '
             'entry that mis-loads, bystander damage, other value) is a VIOLATION. Distinct by kill point; a case '
             'counts only if the victim really died at the point (exit status / event log).'),
    'assumptions': ['line / write-call granularity; kernel-level tearing below write() is out of reach',
                    'a forked copy of the harness process stands in for "the caller\'s process" of the serial backend'],
    'tiers': {
        'quick': {'shards': 16, 'budget_s': 45, 'stride': 3, 'fresh_interpreters': 16},
        'thorough': {'shards': 16, 'budget_s': 300, 'stride': 1, 'fresh_interpreters': 160},
    },
}


def victim_run(case, ctl, store, spec):
    """Executed inside the sacrificial process (serial) or in-process (fork)."""
    import labtech
    from vlab.gen import Built
    from vlab.storages import make_storage
    b1 = Built(spec)
    lab = labtech.Lab(storage=make_storage('faulty', store), runner_backend=case['backend'], max_workers=2, context={})
    return lab.run_tasks([b1.inst('b'), b1.inst('v')], bust_cache=(case['mode'] == 'overwrite'),
                         disable_progress=True, disable_top=True)


def data_state(store, key, cache):
    import json
    import os
    import pickle
    d = os.path.join(store, key)
    if not os.path.isdir(d):
        return 'no-dir', None
    out = {}
    mp = os.path.join(d, 'metadata.json')
    if not os.path.exists(mp):
        out['metadata'] = 'absent'
    elif os.path.getsize(mp) == 0:
        out['metadata'] = 'empty'
    else:
        try:
            json.load(open(mp))
            out['metadata'] = 'complete'
        except ValueError:
            out['metadata'] = 'partial'
    dp = os.path.join(d, 'data.pickle' if cache in ('NS', 'NSP') else 'data.json')
    if not os.path.exists(dp):
        out['data'] = 'absent'
    elif os.path.getsize(dp) == 0:
        out['data'] = 'empty'
    else:
        try:
            if cache == 'NS':
                pickle.load(open(dp, 'rb'))
            else:
                json.load(open(dp))
            out['data'] = 'complete'
        except Exception:
            out['data'] = 'partial'
    return f"dir[metadata={out['metadata']},data={out['data']}]", out


def run_case(case, rep=None, count_only=False):
    import json
    import os
    import shutil
    import signal
    import subprocess
    import sys
    import labtech
    from vlab import engine, events
    from vlab.body import base_of, combine, ctx_digest
    from vlab.gen import Built
    from vlab.props.c12 import base_spec
    from vlab.storages import make_storage
    from vlab.tasks_core import TYPES
    spec = base_spec(case['cache'])
    ctl = engine.new_ctl('vlab-c13-')
    store = os.path.join(ctl, 'store')
    engine.quiet_labtech()
    out = {'died': False, 'bad': [], 'n_lines': None, 'writes': {}, 'fired': None}
    bad = out['bad']
    try:
        def val(name, gen):
            t = spec['tasks'][name]
            pv = t['p'].strip().lower() if (t['type'] == 'NSP' and isinstance(t['p'], str)) else t['p']
            return combine(t['type'], name, pv, [], ctx_digest({}), gen)

        def lab():
            return labtech.Lab(storage=make_storage('faulty', store), runner_backend='serial', context={})
        v0 = None
        if case['mode'] == 'overwrite':
            engine.write_plan(ctl, 0, {'v': {'shape': case['shape']}})
            lab().run_tasks([Built(spec).inst('v')], disable_progress=True, disable_top=True)
            v0 = val('v', 0)
        kill = case['kill']
        tplan = {'v': {'shape': case['shape']}}
        default = {}
        vkey = Built(spec).inst('v').cache_key
        if kill['kind'] == 'line':
            tplan['v']['inject'] = {'k': (None if count_only else kill['k']), 'action': kill.get('sig', 'kill')}
            if kill.get('sig') == 'park':
                tplan['b'] = {}
        else:
            default['storage_fault'] = {'op': ('count' if count_only else kill['op']), 'j': kill.get('j', 0),
                                        'file': kill.get('file'), 'gen': 1, 'sync': kill.get('sync', False), 'key': vkey}
        engine.write_plan(ctl, 1, tplan, default)
        pre = len(events.read_events(ctl))
        if case['backend'] == 'serial' and not count_only:
            if case.get('fresh_interpreter'):
                job = os.path.join(ctl, 'victim.json')
                json.dump({'case': case, 'ctl': ctl, 'store': store, 'spec': spec}, open(job, 'w'))
                r = subprocess.run([sys.executable, '-m', 'vlab.props.c13', job], stdout=subprocess.DEVNULL,
                                   stderr=subprocess.DEVNULL, timeout=120, start_new_session=True)
                out['died'] = r.returncode < 0
                out['rc'] = r.returncode
            else:
                pid = os.fork()
                if pid == 0:
                    try:
                        devnull = os.open(os.devnull, os.O_WRONLY)
                        os.dup2(devnull, 1)
                        os.dup2(devnull, 2)
                        events.reset()
                        victim_run(case, ctl, store, spec)
                    finally:
                        os._exit(0)
                _, status = os.waitpid(pid, 0)
                out['died'] = os.WIFSIGNALED(status)
                out['rc'] = -os.WTERMSIG(status) if os.WIFSIGNALED(status) else os.WEXITSTATUS(status)
        elif kill.get('sig') == 'park' and not count_only:
            # the real "terminate on second interrupt" path: the worker parks at line k of its save, the caller
            # gets two Ctrl-C (SIGINT to itself), Runner.stop() terminates the parked worker
            import threading
            import time
            flag = {'done': False, 'sent': 0}

            def interrupter():
                deadline = time.monotonic() + 8
                while time.monotonic() < deadline and not flag['done']:
                    if any(e['k'] == 'inj-fire' for e in events.read_events(ctl)[pre:]):
                        for i in range(8):
                            # two Ctrl-C; further ones only if the run still has not ended a second later (CPython
                            # drops a KeyboardInterrupt that happens to be raised inside a finalizer or weakref callback)
                            if flag['done']:
                                return
                            flag['sent'] += 1
                            os.kill(os.getpid(), signal.SIGINT)
                            time.sleep(0.3 if i < 1 else 1.0)
                        return
                    time.sleep(0.01)
            th = threading.Thread(target=interrupter, daemon=True)
            signal.signal(signal.SIGINT, signal.default_int_handler)
            if kill.get('handler'):
                # ... in a program whose SIGTERM handler exits cleanly: the worker terminated by Runner.stop() unwinds
                # through the save's own clean-up
                signal.signal(signal.SIGTERM, lambda *_a: sys.exit(1))
            res = {}
            try:
                th.start()
                try:
                    res = victim_run(case, ctl, store, spec)
                except KeyboardInterrupt:
                    out['interrupted'] = True
                except BaseException as ex:   # noqa
                    # what run_tasks raises after two interrupts is C14's subject; here only the cache state counts
                    out['interrupted'] = True
                    out['raised_instead'] = f'{type(ex).__name__}: {ex}'
                finally:
                    flag['done'] = True
                    signal.signal(signal.SIGINT, signal.SIG_IGN)
                th.join(2)
            except KeyboardInterrupt:
                pass
            finally:
                signal.signal(signal.SIGINT, signal.SIG_IGN)
                if kill.get('handler'):
                    signal.signal(signal.SIGTERM, signal.SIG_DFL)
            time.sleep(0.2)
            if kill.get('handler'):
                # the terminated worker is unwinding through labtech's clean-up: let it finish by itself (the
                # harness's own SIGKILL sweep must not be what leaves the entry half-written)
                import multiprocessing
                t_end = time.monotonic() + 20
                while time.monotonic() < t_end and any(
                        p.is_alive() for p in multiprocessing.active_children() if 'Manager' not in p.name):
                    time.sleep(0.02)
            engine.reap_children()
            signal.signal(signal.SIGINT, signal.default_int_handler)
        else:
            handler = kill.get('handler') and not count_only
            if handler:
                # the user's program has a SIGTERM handler that exits cleanly (sys.exit); forked workers inherit it,
                # so a terminated worker unwinds through labtech's exception handlers instead of dying on the spot
                signal.signal(signal.SIGTERM, lambda *_a: sys.exit(1))
            try:
                res = victim_run(case, ctl, store, spec)
            except BaseException as ex:   # noqa
                bad.append((f'parent-raised:{type(ex).__name__}', f'fork parent: run_tasks raised {type(ex).__name__}: {ex}'))
                res = {}
            finally:
                if handler:
                    signal.signal(signal.SIGTERM, signal.SIG_DFL)
            if not count_only and case['backend'] == 'fork':
                if 'v' in [t.name for t in res]:
                    pass     # kill point not reached or save completed
                if 'b' not in [t.name for t in res]:
                    bad.append(('bystander-lost', 'fork parent: bystander missing from the result'))
        evs = events.read_events(ctl)[pre:]
        for e in evs:
            if e['k'] == 'inj':
                out['n_lines'] = e['n']
            elif e['k'] == 'inj-fire':
                out['fired'] = e['site']
            elif e['k'] == 'st-fire':
                out['fired'] = {'file': 'storage', 'func': e['what'], 'line': e['j'], 'text': e['file']}
            elif e['k'] == 'st-count':
                out['writes'][e['file']] = e['writes']
        if count_only:
            return out
        if case['backend'] == 'fork':
            out['died'] = out['fired'] is not None and (kill.get('sig') != 'park' or out.get('interrupted', False))
        if not out['died'] or not out['fired']:
            out['died'] = False
            return out
        # ---- verdict, taken by a process that never ran the save
        engine.write_plan(ctl, 2)
        v1 = val('v', 1)
        sig, parts = data_state(store, vkey, case['cache'])
        out['signature'] = sig
        lab2 = lab()
        b2 = Built(spec)
        v = b2.inst('v')
        symptoms = []
        reported = lab2.is_cached(v)
        listed = False
        try:
            listed = any(t == v for t in lab2.cached_tasks([TYPES[case['cache']]]))
        except BaseException as ex:   # noqa
            symptoms.append(f'cached_tasks-raises:{type(ex).__name__}')
            listed = True
        if reported or listed:
            pre2 = len(events.read_events(ctl))
            try:
                r2 = lab2.run_tasks([v], disable_progress=True, disable_top=True)
            except BaseException as ex:   # noqa
                r2 = {}
            got = base_of(r2[v]) if v in r2 else None
            reexec = any(e['k'] == 'start' for e in events.read_events(ctl)[pre2:])
            if got is None or reexec:
                symptoms.append('reported-cached-but-unloadable')
            elif tuple(got) not in {tuple(v1)} | ({tuple(v0)} if v0 else set()):
                symptoms.append('mis-load')
                bad.append(('reported-cached-mis-load/' + case['mode'], f'entry loads {got}, neither old {v0} nor new '
                            f'{v1}; state {sig}; killed at {out["fired"]}'))
            else:
                if rep is not None:
                    rep.count('entries_loadable_old' if (v0 and tuple(got) == tuple(v0)) else 'entries_loadable_new')
        else:
            if rep is not None:
                rep.count('entries_not_reported')
        incomplete = parts is not None and (parts['metadata'] != 'complete' or parts['data'] != 'complete')
        for s in symptoms:
            if s == 'mis-load':
                continue
            if incomplete:
                graceful = '-after-sigterm-with-exit-handler' if kill.get('handler') else \
                    ('-after-sigint-to-the-worker' if kill.get('sig') == 'int' else '')
                bad.append((f'incomplete-entry-reported-cached{graceful}/{case["mode"]}:{sig}', f'{s}: killed at {out["fired"]}; post-kill '
                            f'state {sig}; is_cached={reported}'))
            else:
                bad.append((f'{s.split(":")[0]}-with-complete-entry/{case["mode"]}', f'{s} although the entry looks '
                            f'complete: {sig}; killed at {out["fired"]}'))
        bb = b2.inst('b')
        extra = sorted(set(os.listdir(store)) - {v.cache_key, bb.cache_key, '.gitignore'})
        if extra:
            bad.append(('foreign-entry-touched', f'after the kill the storage holds entries that belong to neither task: {extra}'))
        if not lab2.is_cached(bb):
            bad.append(('bystander-entry-lost', f'bystander entry gone after the kill at {out["fired"]}'))
        else:
            r3 = lab2.run_tasks([bb], disable_progress=True, disable_top=True)
            if bb not in r3 or tuple(base_of(r3[bb])) != tuple(val('b', 1)):
                bad.append(('bystander-entry-damaged', f'bystander loads {r3.get(bb)}'))
        return out
    finally:
        engine.reap_children()
        shutil.rmtree(ctl, ignore_errors=True)


def enumerate_cases(rep, stride, n_fresh):
    cases = []
    for cache in ('NS', 'NSJ'):
        for mode in ('first', 'overwrite'):
            for shape in ('small', 'big'):
                if cache == 'NSJ' and shape == 'big':
                    continue
                for backend in ('serial', 'fork'):
                    if backend == 'fork' and shape == 'big':
                        continue
                    cfg = {'cache': cache, 'mode': mode, 'shape': shape, 'backend': backend}
                    c = run_case(dict(cfg, backend='serial', kill={'kind': 'line', 'k': None}), count_only=True)
                    n = c['n_lines'] or 0
                    rep.count('line_points_found', n)
                    st = stride if backend == 'serial' else stride * 4
                    for k in range(1 + (len(cases) % st), n + 1, st):
                        cases.append(dict(cfg, kill={'kind': 'line', 'k': k}))
                    if backend == 'serial':
                        for k in range(1, n + 1, max(1, n // 6)):
                            cases.append(dict(cfg, kill={'kind': 'line', 'k': k, 'sig': 'term'}))
                    elif shape == 'small':
                        for k in range(3, n + 1, max(1, n // (3 if stride > 1 else 24))):
                            cases.append(dict(cfg, kill={'kind': 'line', 'k': k, 'sig': 'park'}))
                        for k in range(2 * n // 3, n + 1, 2 if stride == 1 else 5):
                            cases.append(dict(cfg, kill={'kind': 'line', 'k': k, 'sig': 'park', 'handler': True}))
                        # a SIGINT delivered to the worker itself in the middle of its save (terminal Ctrl-C reaches the
                        # whole process group): labtech's workers ignore it and finish the save
                        for k in range(3, n + 1, max(1, n // (6 if stride > 1 else 40))):
                            cases.append(dict(cfg, kill={'kind': 'line', 'k': k, 'sig': 'int'}))
                        # graceful termination must clean up after itself: every line of the last third of the save
                        # (where files are open), a stride before that
                        for k in list(range(2, 2 * n // 3, max(1, n // 10))) + list(range(2 * n // 3, n + 1, 1 if stride == 1 else 2)):
                            cases.append(dict(cfg, kill={'kind': 'line', 'k': k, 'sig': 'term', 'handler': True}))
                    c = run_case(dict(cfg, backend='serial', kill={'kind': 'storage', 'op': 'count'}), count_only=True)
                    for fn, nw in c['writes'].items():
                        js = list(range(1, nw + 1)) if nw <= 30 else sorted(set(list(range(1, 8)) + list(range(8, nw + 1, max(1, nw // 12))) + [nw]))
                        if backend == 'fork':
                            js = js[::4]
                        for j in js:
                            for op in ('kill-write', 'kill-midwrite'):
                                for sync in (False, True):
                                    cases.append(dict(cfg, kill={'kind': 'storage', 'op': op, 'j': j, 'file': fn, 'sync': sync}))
    # a task type whose post_init rewrites a parameter (a key derived again later differs from the one the entry was
    # written under): graceful terminations only, where labtech's own clean-up runs
    for mode in ('first', 'overwrite'):
        cfg = {'cache': 'NSP', 'mode': mode, 'shape': 'small', 'backend': 'fork'}
        c = run_case(dict(cfg, backend='serial', kill={'kind': 'line', 'k': None}), count_only=True)
        n = c['n_lines'] or 0
        for k in range(2, n + 1, 3 if stride == 1 else 9):
            cases.append(dict(cfg, kill={'kind': 'line', 'k': k, 'sig': 'term', 'handler': True}))
        for k in range(2 * n // 3, n + 1, 4 if stride == 1 else 12):
            cases.append(dict(cfg, kill={'kind': 'line', 'k': k, 'sig': 'park', 'handler': True}))
    fresh = [dict(c, fresh_interpreter=True) for c in cases if c['backend'] == 'serial'][::max(1, len(cases) // max(1, n_fresh))][:n_fresh]
    return cases + fresh


def run_shard(rep):
    import json
    cfg = META['tiers'][rep.tier]
    rep.require('kills_delivered', 200)
    cases = enumerate_cases(rep, cfg['stride'], cfg['fresh_interpreters'])
    if rep.shard == 0:
        rep.count('kill_points_enumerated', len(cases))
    done = True
    for case in cases[rep.shard::rep.nshards]:
        if rep.expired():
            rep.count('skipped_for_time')
            done = False
            continue
        r = run_case(case, rep)
        if not r['died']:
            rep.count('kill_point_not_reached')
            continue
        rep.case(json.dumps(case, sort_keys=True), True)
        rep.count('kills_delivered')
        if r.get('raised_instead'):
            rep.foreign['two interrupts: run_tasks raised ' + r['raised_instead'][:80]] += 1
        rep.count(f"kills_{case['kill']['kind']}_{case['backend']}" + ('_fresh' if case.get('fresh_interpreter') else '')
                  + ('_terminate_on_second_interrupt' if case['kill'].get('sig') == 'park' else '')
                  + ('_sigint_to_the_worker' if case['kill'].get('sig') == 'int' else '')
                  + ('_sigterm_with_exit_handler' if case['kill'].get('handler') else ''))
        rep.seen('kill_sites', f"{r['fired'].get('file')}:{r['fired'].get('func')}")
        rep.seen('post_kill_signatures', f"{case['mode']}:{r.get('signature')}")
        seen = set()
        for key, msg in r['bad']:
            if key not in seen:
                seen.add(key)
                rep.violation(key, f'{msg} :: case {case}', {'case': case})
        if len(rep.samples) < 3:
            rep.sample({'case': case, 'killed_at': r['fired'], 'post_kill_state': r.get('signature'),
                        'outcome': [k for k, _ in r['bad']] or 'not poisoned'})
    rep.exhaustive = done and cfg['stride'] == 1


def replay(rep, wit):
    rep.case('a', True)
    rep.case('b', True)
    case = wit['witness']['case']
    r = run_case(case, rep)
    for key, msg in r['bad']:
        rep.violation(key, msg, wit['witness'])


if __name__ == '__main__':
    # fresh-interpreter victim
    import json
    import os
    import sys
    job = json.load(open(sys.argv[1]))
    os.environ['VLAB_CTL'] = job['ctl']
    from vlab import engine
    engine.quiet_labtech()
    victim_run(job['case'], job['ctl'], job['store'], job['spec'])
    os._exit(0)
