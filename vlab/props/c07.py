"""C07 - cache keys are deterministic and distinguish every distinct task."""

META = {
    'level': 'exploration',
    'rule': ('Seeded parameter trees over the value grammar (scalars incl. edge ints/floats/strings, enums of two '
             'same-named classes in two modules, tuples/lists, string-keyed dicts/frozendicts, nested tasks, depth '
             '<= 4) for task types {VA, VB, VAX(prefix-named), tasks_alt.VA(same qualname), VJ(other cache), VP, VU(underscore-prefixed parameter)}; '
             'for each base tree: equal re-spellings, pickle round trips (all protocols), serializer round trip, rebuilding from a really stored metadata.json (cache.save + load_task), and '
             '3+ near-miss mutations of one node (scalar type, enum class/module, nesting, length, order, dict key, '
             'nested task type). Monitors: key ledger {typed canonical identity -> key} checked as a function and as '
             'an injection within the shard; a shared construction list (seeded by VERIF_SEED only) is keyed in '
             'every shard (16 interpreters, 16 hash seeds) and the digests must agree; LocalStorage.exists accepts '
             'every key. Distinct by canonical identity; non-trivial when the tree has a container or nested task.'),
    'assumptions': ['dict insertion order is part of how a task is built (no order-insensitivity asserted)',
                    'identity distinguishes 1, 1.0, True and 0.0, -0.0 by repr',
                    'marker-imitating dict parameters are a separate class keyed marker-dict-collision'],
    'tiers': {
        'quick': {'shards': 16, 'budget_s': 40, 'n_base': 40000, 'n_shared': 3000},
        'thorough': {'shards': 16, 'budget_s': 300, 'n_base': 600000, 'n_shared': 30000},
    },
}


def build(module, cls, pdesc, qdesc):
    from vlab import valgen
    return valgen.make_task(module, cls, valgen.realize(pdesc), valgen.realize(qdesc))


def shared_list(seed, n):
    import random
    from vlab import valgen
    rng = random.Random(f'C07-shared:{seed}')
    out = []
    for _ in range(n):
        m, c = rng.choice(valgen.TASKS)
        out.append((m, c, valgen.gen_value(rng, rng.choice([1, 2, 3, 4])), valgen.gen_value(rng, 1)))
    return out


def run_shard(rep):
    import hashlib
    import json
    import pickle
    import random
    import tempfile
    from labtech.serialization import Serializer
    from labtech.storage import LocalStorage
    from vlab import valgen
    cfg = META['tiers'][rep.tier]
    rep.require('near_miss_pairs', 1000)
    rep.require('keys_recorded', 2000)
    rep.require('mainscript_worker_key_reports', 20)
    ledger = {}      # identity json -> key
    rev = {}         # key -> identity json
    store = LocalStorage(tempfile.mkdtemp(prefix='vlab-c07-'))
    ser = Serializer()

    def record(idn, task, how, wit):
        ij = json.dumps(idn, sort_keys=False)
        key = task.cache_key
        rep.count('keys_recorded')
        if ij in ledger and ledger[ij] != key:
            rep.violation('key-not-deterministic', f'same canonical identity got two keys ({how}): {ledger[ij]} vs {key}', wit)
        ledger.setdefault(ij, key)
        if key in rev and rev[key] != ij:
            k = 'marker-dict-collision' if ('"marker"' in ij or '"marker"' in rev[key]) else 'key-collision'
            rep.violation(k, f'two different tasks share key {key}: {rev[key][:300]} vs {ij[:300]}', wit)
        rev.setdefault(key, ij)
        try:
            if store.exists(key):
                rep.violation('exists-true-on-empty', f'exists({key}) true on an empty storage', wit)
        except Exception as ex:
            rep.violation('key-rejected-by-storage', f'LocalStorage.exists({key!r}) raised {type(ex).__name__}: {ex}', wit)
        return key

    # shared list: identical in every shard
    sl = shared_list(rep.seed, cfg['n_shared'])
    chunk = []
    for i, (m, c, p, q) in enumerate(sl):
        t = build(m, c, p, q)
        chunk.append(t.cache_key)
        if len(chunk) == 50 or i == len(sl) - 1:
            rep.seen('shared_digest', f'{i // 50}:' + hashlib.sha1('\n'.join(chunk).encode()).hexdigest()[:12])
            chunk = []
    rep.count('shared_keys_computed', len(sl))

    # task types defined in the running script: the key a worker (fork: __main__, spawn: __mp_main__) sees for a
    # task and its nested tasks must be the caller's
    for r in range(1 if rep.tier == 'quick' else 4):
        mainscript_case(rep, ['serial', 'fork', 'spawn'][(rep.shard + r) % 3], rep.seed * 1000 + rep.shard * 10 + r)

    j = rep.shard
    while j < cfg['n_base'] and not rep.expired():
        rng = random.Random(f'{rep.seed}:C07:{j}')
        j += rep.nshards
        m, c = rng.choice(valgen.TASKS)
        depth = rng.choice([1, 2, 3, 4])
        p = valgen.gen_value(rng, depth)
        q = valgen.gen_value(rng, 1) if rng.random() < 0.5 else {'s': None}
        wit = {'module': m, 'cls': c, 'p': p, 'q': q}
        base = build(m, c, p, q)
        idn = valgen.task_ident(m, c, p, q)
        nontrivial = any(k in p for k in ('l', 't', 'd', 'fd', 'task'))
        rep.case(json.dumps(idn), nontrivial)
        rep.seen('task_types', f'{m}.{c}')
        record(idn, base, 'first construction', wit)
        # re-spellings, pickling, serializer round trip
        for _ in range(2):
            t2 = build(m, c, valgen.respell(rng, p), valgen.respell(rng, q))
            record(idn, t2, 'list/dict re-spelling', wit)
            rep.count('respellings')
        for proto in valgen.pickle_protocols(base):
            t3 = pickle.loads(pickle.dumps(base, protocol=proto))
            record(idn, t3, f'pickle protocol {proto}', wit)
            rep.count('pickle_roundtrips')
        try:
            t4 = ser.deserialize_task(json.loads(json.dumps(ser.serialize_task(base))), result_meta=None)
        except Exception as ex:   # reconstruction faithfulness is C09's subject; here only the key
            rep.foreign[f'deserialize raised {type(ex).__name__}'] += 1
        else:
            if t4 == base:
                record(idn, t4, 'metadata round trip', wit)
                rep.count('metadata_roundtrips')
            else:
                rep.foreign['deserialize gave unequal task'] += 1
        if j % (5 * rep.nshards) < rep.nshards:
            # the real thing: save the entry through the task type's cache, rebuild the task from the stored metadata
            from labtech.types import ResultMeta, TaskResult
            from datetime import datetime, timedelta
            try:
                cache = type(base)._lt.cache
                cache.save(store, base, TaskResult(value=1, meta=ResultMeta(start=datetime(2020, 1, 1), duration=timedelta(seconds=1))))
                t6 = cache.load_task(store, type(base), base.cache_key)
                cache.delete(store, base)
            except Exception as ex:
                rep.foreign[f'save/load_task raised {type(ex).__name__}'] += 1
            else:
                if t6 == base:
                    record(idn, t6, 'rebuilt from the stored metadata file', wit)
                    rep.count('stored_metadata_roundtrips')
                else:
                    rep.foreign['load_task gave unequal task'] += 1
        # near misses
        for _ in range(3):
            nm = valgen.near_miss(rng, {'task': [m, c, p, q]})
            if nm is None:
                continue
            d2, kind = nm
            m2, c2, p2, q2 = d2['task']
            t5 = build(m2, c2, p2, q2)
            record(valgen.task_ident(m2, c2, p2, q2), t5, f'near miss ({kind})', {'base': wit, 'near': d2, 'kind': kind})
            rep.count('near_miss_pairs')
            rep.count('near_miss_' + kind)
        # marker-imitating dict class (kept separate; one mechanism)
        if rng.random() < 0.03:
            e = rng.choice(valgen.ENUMS)
            pe = {'e': list(e)}
            pm = {'m': 'enum', 'of': list(e)}
            ta = build(m, c, pe, {'s': None})
            tb = build(m, c, pm, {'s': None})
            record(valgen.task_ident(m, c, pe, {'s': None}), ta, 'enum', wit)
            record(valgen.task_ident(m, c, pm, {'s': None}), tb, 'marker dict', {'marker': pm, 'module': m, 'cls': c})
            rep.count('marker_pairs')
        if len(rep.samples) < 2 and nontrivial:
            rep.sample({'type': f'{m}.{c}', 'p': p, 'q': q, 'key': base.cache_key})
    import shutil
    shutil.rmtree(str(store._storage_path), ignore_errors=True)


def mainscript_case(rep, backend, seed):
    import hashlib
    import json
    from vlab.mainscript_run import run_mainscript
    wit = {'mainscript': [backend, seed]}
    st, x = run_mainscript(backend, seed, hashseed=seed % 1000)
    if st == 'timeout':
        rep.inconclusive(f'main-script tasks ({backend}, seed {seed}): timed out', wit)
        return
    if st == 'failed':
        rep.violation('script-tasks-run-failed', f'main-script tasks ({backend}): the script failed: {x}', wit)
        return
    rep.count('mainscript_runs')
    rep.count('mainscript_worker_key_reports', x['obs']['worker_seen'])
    rep.seen('mainscript_backends', backend)
    rep.seen('mainscript_parent_keys', hashlib.sha1(json.dumps(x['obs']['parent_keys'], sort_keys=True).encode()).hexdigest()[:12])
    rep.case(['mainscript', backend, seed], x['obs']['worker_seen'] >= 2)
    for key, msg in x['bad']:
        if key == 'worker-key-differs':
            rep.violation('key-differs-in-worker', f'task types defined in the main script: {msg}', wit)
            break


def post_merge(m):
    """Cross-shard: every chunk of the shared construction list must have one digest."""
    by = {}
    for s in m['sets'].get('shared_digest', ()):
        i, d = s.split(':')
        by.setdefault(i, set()).add(d)
    out = []
    for i, ds in by.items():
        if len(ds) > 1:
            out.append(('key-differs-across-processes', f'chunk {i} of the shared construction list produced '
                        f'{len(ds)} different key digests across interpreters/hash seeds', {'chunk': int(i)}))
    pk = m['sets'].get('mainscript_parent_keys', ())
    if len(pk) > 1:
        out.append(('key-differs-across-processes', f'the tasks built by vlab/mainscript.py got {len(pk)} different '
                    f'key sets across interpreters/hash seeds', {'chunk': -1}))
    m['counters']['shared_chunks_compared'] = len(by)
    return out[:3]


def replay(rep, wit):
    w = wit['witness']
    rep.case('replay-a', True)
    rep.case('replay-b', True)
    if 'mainscript' in w:
        mainscript_case(rep, *w['mainscript'])
        return
    if 'chunk' in w:
        rep.inconclusive('cross-process witness: rerun the check')
        return
    if 'marker' in w:
        t = build(w['module'], w['cls'], w['marker'], {'s': None})
        e = build(w['module'], w['cls'], {'e': w['marker']['of']}, {'s': None})
        if t.cache_key == e.cache_key:
            rep.violation('marker-dict-collision', f'{t!r} and {e!r} share key {t.cache_key}', w)
        return
    base = w.get('base', w)
    t = build(base['module'], base['cls'], base['p'], base['q'])
    if 'near' in w:
        m2, c2, p2, q2 = w['near']['task']
        t2 = build(m2, c2, p2, q2)
        if t2.cache_key == t.cache_key:
            rep.violation('key-collision', f'{t!r} vs {t2!r}', w)
