"""C11 - run_tasks always terminates; it never deadlocks or spins."""

META = {
    'level': 'fault_enumeration',
    'rule': ('Restated for runtime monitoring as (L1) the coordinator never calls Runner.wait() three times in a row '
             'with nothing in flight outside the interrupt epilogue (logical spin detector in the spy, exact) and '
             '(L2) bounded progress: run_tasks returns or raises within B = 30 s of a workload whose tasks take < 0.1 '
             's; when B expires the verdict is decided logically: no worker process of the run alive and every '
             'started task ended => violated, otherwise inconclusive. Workload: random DAGs x failing subsets with '
             'fault kinds {exception, unpicklable exception, SystemExit, BaseException subclass, os._exit(3), os._exit(0), SIGKILL of '
             'self} x continue_on_failure x {sim (thousands of schedules with planned deaths), serial, fork, spawn} '
             'x max_workers {1,2,3} incl. max_workers=1 with max_parallel=1 types x default and disabled '
             'progress/monitor displays, plus external SIGKILL of worker processes through pidfds taken at launch, at '
             'seeded delays after each launch (during bootstrap, inside run(), during save, after the result was '
             'queued) and all-at-once. Distinct by (DAG, failing set, kill schedule, config); non-trivial when a '
             'task failed, died or was killed.'),
    'assumptions': ['unbounded liveness is not decidable by monitoring: B=30 s against a 0.5 s polling period',
                    'kills use pidfd_send_signal, never os.kill(pid) (pids are reused within a run)'],
    'tiers': {
        'quick': {'shards': 16, 'budget_s': 45, 'n_sim': 2000, 'n_real': 400},
        'thorough': {'shards': 16, 'budget_s': 330, 'n_sim': 40000, 'n_real': 5000},
    },
}

B_SECONDS = 30
B_RETRY_SECONDS = 120


def make_scn(rng, real):
    from vlab.props.c10 import KINDS
    from vlab.dagcommon import gen_dag_scenario
    backend = rng.choice(['serial', 'fork', 'fork', 'fork', 'spawn']) if real else 'sim'
    types = (('NA', 3), ('NB', 3), ('NC', 1), ('NN', 1), ('NJ', 1))
    scn = gen_dag_scenario(rng, backend=backend, nmax=rng.choice([4, 6, 9]), types=types, fresh=False,
                           precache=rng.random() < 0.3, gated=False,
                           shape=rng.choice([None, 'wide', 'diamond', 'chain', 'fanin', 'layered']))
    scn['bust'] = False
    scn['max_workers'] = rng.choice([1, 1, 2, 3])
    names = list(scn['spec']['tasks'])
    k = rng.choice([0, 1, 1, 2, len(names)])
    scn['failing'] = {n: rng.choice(KINDS[backend]) for n in rng.sample(names, min(k, len(names)))}
    scn['cof'] = rng.random() < 0.75
    scn['displays'] = real and rng.random() < 0.4
    if backend in ('fork', 'spawn'):
        scn['free_sleep'] = [0.0, 0.005, 0.02, 0.04]
        r = rng.random()
        if r < 0.6:
            scn['ext_kills'] = {'delays': [rng.choice([0.0, 0.001, 0.004, 0.01, 0.02, 0.04, 0.07, 0.15]) for _ in range(12)],
                                'prob': rng.choice([0.3, 0.6, 1.0])}
        elif r < 0.75:
            scn['ext_kills'] = {'all_at': rng.choice([0.01, 0.05, 0.1, 0.3])}
    return scn


def run_one(rep, scn, bound=None):
    import random
    import signal
    import threading
    import time
    from vlab import engine
    from vlab.spy import HarnessAbort
    state = {'timers': [], 'kills': 0, 'lock': threading.Lock()}

    def alarm(*_a):
        raise HarnessAbort('watchdog: run_tasks did not return within B')

    def before(out):
        signal.signal(signal.SIGALRM, alarm)
        signal.alarm(bound or B_SECONDS)
        ek = scn.get('ext_kills')
        state['ledger'] = out.ledger_obj
        if ek and 'delays' in ek:
            r = random.Random(scn['sched_seed'])
            delays = list(ek['delays'])

            def on_launch(ent):
                if r.random() < ek['prob']:
                    d = delays[len(state['timers']) % len(delays)]

                    def kill():
                        if out.ledger_obj.kill(ent):
                            with state['lock']:
                                state['kills'] += 1
                    t = threading.Timer(d, kill)
                    state['timers'].append(t)
                    t.start()
            out.ledger_obj.on_launch = on_launch
        elif ek:
            def kill_all():
                for ent in list(out.ledger_obj.entries):
                    if out.ledger_obj.kill(ent):
                        with state['lock']:
                            state['kills'] += 1
            t = threading.Timer(ek['all_at'], kill_all)
            state['timers'].append(t)
            t.start()

    def after(out):
        signal.alarm(0)
        for t in state['timers']:
            t.cancel()
        alive = out.ledger_obj.alive()
        state['alive_at_end'] = [e['name'] for e in alive]
        if getattr(out, 'aborted', None) and alive:
            state['diag'] = [dict(engine.diag_process(e['pid']), task=e['name']) for e in alive[:2]]

    t0 = time.monotonic()
    out = engine.run_dag(scn, before_run=before, after_run=after)
    dur = time.monotonic() - t0
    for t in state['timers']:
        t.cancel()
    return out, state, dur


def judge(rep, scn, out, state, dur):
    wit = {'scenario': scn}
    rep.count('external_kills_delivered', state['kills'])
    ndead = sum(1 for c in out.trace.calls if c['op'] == 'yield' and c.get('res') == 'TaskDiedError')
    rep.count('task_deaths_observed', ndead)
    rep.count('waits_observed', sum(1 for c in out.trace.calls if c['op'] == 'wait'))
    rep.seen('durations_s', int(dur))
    ab = getattr(out, 'aborted', None)
    if ab and ab.startswith('spin'):
        rep.violation('spin-nothing-in-flight', f'{ab}; failing={scn.get("failing")}', wit)
    elif ab and ab.startswith('watchdog'):
        started = {e['name'] for e in out.events if e['k'] == 'start' and e.get('gen') == 1}
        ended = {e['name'] for e in out.events if e['k'] == 'end' and e.get('gen') == 1}
        alive = state.get('alive_at_end') or []
        if not alive:
            rep.violation('no-return-with-nothing-alive', f'run_tasks did not return within {B_SECONDS}s although no '
                          f'worker of the run is alive (started {sorted(started)}, ended {sorted(ended)}, '
                          f'{state["kills"]} external kills); last calls: '
                          f'{[(c["op"], c.get("name")) for c in out.trace.calls[-8:]]}', wit)
        else:
            rep.inconclusive(f'watchdog fired but workers still alive: {alive}', dict(wit, diag=state.get('diag')))
    elif ab:
        rep.inconclusive(f'harness abort: {ab[:120]}', wit)
    else:
        rep.count('runs_terminated')
        if out.exc is not None and type(out.exc).__name__ not in ('LabError',):
            rep.foreign[f'run_tasks raised {type(out.exc).__name__}'] += 1
    return bool(scn.get('failing')) or state['kills'] > 0 or ndead > 0


def run_shard(rep):
    from vlab.dagcommon import scenario_rng, scn_key, scn_summary
    cfg = META['tiers'][rep.tier]
    rep.require('runs_terminated', 150)
    rep.require('external_kills_delivered', 40)
    rep.require('task_deaths_observed', 100)
    jobs = [('real', j) for j in range(cfg['n_real'])] + [('sim', j) for j in range(cfg['n_sim'])]
    for kind, j in jobs[rep.shard::rep.nshards]:
        if rep.expired():
            rep.count('skipped_for_time')
            continue
        if sum(1 for v in rep.violations if v['key'].startswith('no-return')) >= 2:
            rep.count('stopped_after_repeated_hangs')
            break       # every further hang would cost B + retry; the verdict is already decided
        rng = scenario_rng(rep.seed, 'C11' + kind, j)
        scn = make_scn(rng, kind == 'real')
        out, state, dur = run_one(rep, scn)
        ab = getattr(out, 'aborted', None)
        if ab and ab.startswith('watchdog') and not state.get('alive_at_end'):
            # before calling it a violation, rule out a merely slow (overloaded) host: same scenario, 4x the bound
            rep.count('watchdog_retries')
            out, state, dur = run_one(rep, scn, bound=B_RETRY_SECONDS)
            if not getattr(out, 'aborted', None):
                rep.inconclusive(f'returned only within the extended bound ({dur:.0f}s): slow host, not judged', {'scenario': scn})
        nt = judge(rep, scn, out, state, dur)
        rep.case(scn_key(scn) + [str(scn.get('ext_kills')), scn.get('displays'), scn.get('cof')], nt)
        rep.count(f'runs_{scn["backend"]}')
        if scn.get('displays'):
            rep.count('runs_with_default_displays')
        if scn['max_workers'] == 1:
            rep.count('runs_max_workers_1')
        if len(rep.samples) < 2 and nt and scn['backend'] != 'sim':
            s = scn_summary(scn, out)
            s['ext_kills'] = scn.get('ext_kills')
            s['kills_delivered'] = state['kills']
            s['duration_s'] = round(dur, 2)
            rep.sample(s)


def replay(rep, wit):
    rep.case('a', True)
    rep.case('b', True)
    scn = wit['witness']['scenario']
    out, state, dur = run_one(rep, scn)
    judge(rep, scn, out, state, dur)
