"""C02 - a task never starts before all of its dependencies have finished."""

META = {
    'level': 'exploration',
    'rule': ('Random DAG specs (dependencies nested in lists/tuples/dicts up to depth 3, duplicate instances, failing '
             'dependencies) under sim (seeded multi-task completion batches), serial, gate-controlled and '
             'free-running fork/spawn; oracle = happens-before check on the merged trace: every submit(T) at the '
             'Runner boundary and every start(T) event of run() is preceded by yield(D)/end(D) of every dependency D '
             'named by the spec; every dep-read event carries the reference value of D, or raised for a failed D. '
             'A third of the scenarios make a second run_tasks call on the same Lab and the same task objects (bust_cache, new generation, other failing set): every read must then see the value computed by the second call or raise. Distinct by (DAG structure, config, schedule seed, failing set); non-trivial when >= 1 dependency read '
             'was observed and >= 2 completions.'),
    'assumptions': ['cross-process order uses CLOCK_MONOTONIC shared by all processes of the host',
                    'failing tasks are dependency-only (failed requested tasks are the subject of C10)'],
    'tiers': {
        'quick': {'shards': 16, 'budget_s': 40, 'n_sim': 2400, 'n_real': 160},
        'thorough': {'shards': 16, 'budget_s': 300, 'n_sim': 40000, 'n_real': 1600},
    },
}


def make_scn(rng, real):
    from vlab.dagcommon import gen_dag_scenario
    backend = rng.choice(['serial', 'fork', 'fork', 'spawn']) if real else 'sim'
    kinds = ('raise:ValueError', 'raise:Multi', 'kill') if backend != 'serial' else ('raise:ValueError', 'raise:Multi')
    scn = gen_dag_scenario(rng, backend=backend, nmax=rng.choice([5, 8, 12]), failing=rng.random() < 0.5,
                           fail_kinds=kinds)
    if rng.random() < 0.35:
        # a second run_tasks call with the same Lab and the same task objects: everything re-executes
        # (bust_cache) at a new generation, some dependency-only tasks now fail
        scn['gated'] = False if backend in ('fork', 'spawn') else scn.get('gated')
        if backend in ('fork', 'spawn'):
            scn['free_sleep'] = [0.0, 0.005]
        scn['failing'] = {}
        names = [n for n in scn['spec']['tasks'] if n not in scn['spec']['requested']]
        f2 = {n: 'raise:ValueError' for n in rng.sample(names, rng.randrange(0, min(2, len(names)) + 1))} if names else {}
        scn['second_run'] = {'failing': f2}
    return scn


def judge(rep, scn, out):
    from vlab import engine, oracles
    from vlab.props.dagprop import report_bad
    exp, _ = engine.expected_values(scn, out)
    bad, nreads = oracles.c02(scn, out, exp)
    rep.count('dep_reads_checked', nreads)
    rep.count('submits_checked', sum(1 for c in out.trace.calls if c['op'] == 'submit'))
    rep.count('reads_of_failed_dep', sum(1 for e in out.events if e['k'] == 'read' and 'raised' in e))
    if out.exc is not None:
        rep.foreign[f'run_tasks raised {type(out.exc).__name__}'] += 1
    report_bad(rep, scn, bad)
    if getattr(out, 'second', None):
        bad2, n2 = oracles.c02_second(scn, out)
        rep.count('second_call_dep_reads_checked', n2)
        rep.count('second_calls')
        report_bad(rep, scn, bad2)
    ny = sum(1 for c in out.trace.calls if c['op'] == 'yield')
    return nreads >= 1 and ny >= 2


def run_shard(rep):
    from vlab.props.dagprop import drive
    cfg = META['tiers'][rep.tier]
    rep.require('dep_reads_checked', 500)
    rep.require('reads_of_failed_dep', 5)
    rep.require('second_call_dep_reads_checked', 100)
    drive(rep, 'C02', make_scn=make_scn, judge=judge, n_sim=cfg['n_sim'], n_real=cfg['n_real'])


def replay(rep, wit):
    from vlab.props.dagprop import replay_with
    replay_with(rep, wit, judge)
