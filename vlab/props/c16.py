"""C16 - each task runs in the environment its backend and context promise."""

META = {
    'level': 'exploration',
    'rule': ('Random DAGs (types incl. an uncached limited type and the per-name subset filter NF, the same filter inherited from a mixin (NG) and the transforming, non-idempotent filter NT and the filter NE that selects nothing (empty dict)) x {serial, fork, spawn} x max_workers x two '
             'Lab contexts holding unique canary strings (in half of the cases the second Lab runs the very task objects the first one ran). Each run() start event carries pid, ppid, native thread '
             'id, the value of a harness module global that the caller overwrites after import, and digest + key '
             'list of self.context. Oracle = per-backend process-model table (serial: caller pid+thread; fork: own '
             'child pid per task, ppid == caller, sees the mutated global; spawn: own child pid, ppid == caller, sees '
             'the import-time global) + context == harness-computed filter of the Lab context + identical storage '
             'key sets for both contexts + no stored file contains a canary (a third of the tasks return results that contain task objects - themselves and their dependencies - so task state is part of the stored bytes). Distinct by (DAG, backend, workers); '
             'non-trivial when >= 2 tasks executed and the DAG has a filtered-context task or a dependency.'),
    'assumptions': ['"freshly started interpreter that shares no memory" is observed through a module global '
                    'mutated by the caller after import (a forked child sees the mutation, a spawned one does not)'],
    'tiers': {
        'quick': {'shards': 16, 'budget_s': 45, 'n': 300},
        'thorough': {'shards': 16, 'budget_s': 300, 'n': 5000},
    },
}


def scan_store(store, canaries):
    import os
    hits, keys, nfiles = [], [], 0
    for root, dirs, files in os.walk(store):
        for d in dirs:
            if root == store:
                keys.append(d)
        for f in files:
            nfiles += 1
            with open(os.path.join(root, f), 'rb') as fh:
                data = fh.read()
            for c in canaries:
                if c.encode() in data:
                    hits.append((os.path.relpath(os.path.join(root, f), store), c))
    return sorted(keys), hits, nfiles


def one(rep, rng, j, scn=None):
    import os
    from vlab import engine
    from vlab.body import ctx_digest
    from vlab.dagcommon import gen_dag_scenario, scn_key, scn_summary
    from vlab.tasks_core import filter_ctx
    if scn is not None:
        backend = scn['backend']
        return _judge(rep, rng, scn, backend)
    backend = rng.choice(['serial', 'fork', 'fork', 'spawn', 'spawn'])
    types = (('NA', 3), ('NF', 2), ('NG', 3), ('NT', 3), ('NE', 3), ('NB', 1), ('NN', 1), ('NJ', 1), ('NP', 2), ('NM', 1))
    scn = gen_dag_scenario(rng, backend=backend, nmax=rng.choice([3, 5, 7]), types=types, precache=False,
                           gated=False, fresh=rng.random() < 0.3)
    scn.pop('free_sleep', None)
    scn['max_workers'] = rng.choice([1, 2, 4, None])
    scn['empty_ctx'] = rng.random() < 0.1
    scn['reuse_objects'] = rng.random() < 0.5 and not scn.get('pickled_copies')
    if backend == 'serial' and not scn['empty_ctx'] and rng.random() < 0.6:
        names = list(scn['spec']['tasks'])
        scn['ctx_mutators'] = rng.sample(names, rng.randrange(1, min(3, len(names)) + 1))
    if backend in ('fork', 'spawn') and rng.random() < 0.3:
        # a cache entry disappears between planning and loading: part of the DAG is cached, one worker, gated;
        # at the first rest point the harness deletes the entry of a load that is still queued
        names = list(scn['spec']['tasks'])
        scn['pre'] = rng.sample(names, max(1, len(names) // 2))
        scn['pre_backend'] = 'serial'
        scn['max_workers'] = 1
        scn['gated'] = True
        scn['evict'] = True
    return _judge(rep, rng, scn, backend)


def _judge(rep, rng, scn, backend):
    import os
    from vlab import engine
    from vlab.body import ctx_digest
    from vlab.dagcommon import scn_key, scn_summary
    from vlab.tasks_core import filter_ctx
    keysets = []
    # a third of the pickle-cached tasks return a result that contains task objects (themselves, their dependencies)
    srng = __import__('random').Random(scn.get('sched_seed', 0))
    scn['task_plan'] = {n: {'shape': 'selfref'} for n, t in scn['spec']['tasks'].items()
                        if t['type'] not in ('NJ', 'NK', 'NSJ') and srng.random() < 0.35}
    first_objects = None
    for variant in (0, 1):
        can = [f'CANARY-{variant}-{rng.randrange(1 << 40):x}' for _ in range(3)]
        names = list(scn['spec']['tasks'])
        ctx = {'shared': can[0], 'other': can[1]}
        for n in names[:3]:
            ctx[f'for_{n}'] = can[2] + n
        if scn.get('empty_ctx'):
            ctx = {}        # Lab(context=None) / an empty context: every filter sees an empty dict
        scn['ctx'] = ctx
        ctx_at_call = dict(ctx)
        if backend == 'serial' and scn.get('ctx_mutators'):
            # tasks of the serial backend run in the caller's memory: some of them rebind a key of the very dict the
            # Lab was given; a task that runs later must see its filter applied to the context as it is THEN
            for i, n in enumerate(scn['ctx_mutators']):
                scn['task_plan'].setdefault(n, {})['ctxmut'] = [['shared', 'other', f'for_{names[0]}'][i % 3],
                                                                 f'{can[i % 3]}-rebound-by-{n}']
        ev = {'done': None}

        def hooks_factory(o, gate, ev=ev):
            if gate is None or not scn.get('evict'):
                return None

            def on_rest(g, spy, rest):
                import shutil
                if ev['done']:
                    return
                launched = {e['name'] for e in g.ledger.entries}
                for t in spy.inflight:
                    if g.use_cache.get(t.name) and t.name not in launched:
                        shutil.rmtree(os.path.join(o.ctl, 'store', t.cache_key), ignore_errors=True)
                        g.release([t.name])     # should it be executed after all, it must not wait at its gate
                        ev['done'] = t.name
                        return
            gate.on_rest = on_rest
            return gate
        reuse = variant == 1 and scn.get('reuse_objects') and first_objects is not None
        out = engine.run_dag(scn, keep=True, hooks_factory=hooks_factory, prebuilt=(first_objects if reuse else None))
        if variant == 0 and out.exc is None:
            first_objects = (out.built, out.req)
        if reuse:
            rep.count('runs_of_the_same_task_objects_under_another_lab_context')
        if ev['done']:
            rep.count('entries_evicted_between_planning_and_loading')
        try:
            wit = {'scenario': scn}
            if out.exc is not None:
                rep.foreign[f'run_tasks raised {type(out.exc).__name__}'] += 1
                rep.inconclusive(f'run raised {out.exc_info}', wit)
                return
            starts = [e for e in out.events if e['k'] == 'start' and e.get('gen') == 1]
            pids = {}
            live_ctx = dict(ctx_at_call)
            muts = 0
            for e in sorted((x for x in out.events if x['k'] == 'ctxmut' or (x['k'] == 'start' and x.get('gen') == 1)),
                            key=lambda x: x['t']):
                if e['k'] == 'ctxmut':
                    live_ctx[e['key']] = e['value']
                    muts += 1
                    continue
                rep.count('executions_observed')
                if muts:
                    rep.count('executions_after_a_task_rebound_the_context')
                t = scn['spec']['tasks'][e['name']]['type']
                want = filter_ctx(t, e['name'], live_ctx)
                if e['ctx'] != ctx_digest(want) or e['ctxkeys'] != sorted(want):
                    rep.violation('wrong-context', f"{backend}: {e['name']} ({t}) saw context keys {e['ctxkeys']} "
                                  f"digest {e['ctx']}, expected {sorted(want)} {ctx_digest(want)}", wit)
                if backend == 'serial':
                    if e['pid'] != out.caller_pid or e['tid'] != out.caller_tid:
                        rep.violation('serial-not-in-caller', f"{e['name']} ran in {e['pid']}/{e['tid']}, caller "
                                      f"{out.caller_pid}/{out.caller_tid}", wit)
                    if e['glob'] != 'mutated-by-caller':
                        rep.violation('serial-memory', f"{e['name']} saw global {e['glob']}", wit)
                else:
                    if e['pid'] == out.caller_pid:
                        rep.violation('not-in-child-process', f"{backend}: {e['name']} ran in the caller's process", wit)
                    if e['ppid'] != out.caller_pid:
                        rep.violation('not-a-direct-child', f"{backend}: {e['name']} ran in pid {e['pid']} whose "
                                      f"parent is {e['ppid']}, caller {out.caller_pid}", wit)
                    if e['pid'] in pids:
                        rep.violation('process-reused', f"{backend}: {e['name']} and {pids[e['pid']]} ran in the "
                                      f"same process {e['pid']}", wit)
                    pids[e['pid']] = e['name']
                    if backend == 'fork' and e['glob'] != 'mutated-by-caller':
                        rep.violation('fork-does-not-inherit-memory', f"fork: {e['name']} saw global {e['glob']!r}, "
                                      f"the caller had set 'mutated-by-caller' before run_tasks", wit)
                    if backend == 'spawn' and e['glob'] != 'import-time':
                        rep.violation('spawn-shares-memory', f"spawn: {e['name']} saw global {e['glob']!r}: the "
                                      f"child inherited the caller's memory instead of starting a fresh interpreter",
                                      wit)
            keys, hits, nfiles = scan_store(os.path.join(out.ctl, 'store'), can)
            rep.count('stored_files_scanned', nfiles)
            if hits:
                rep.violation('context-in-stored-entry', f'context canary found in stored files: {hits[:3]}', wit)
            keysets.append(keys)
            if variant == 0:
                rep.case(scn_key(scn), len(starts) >= 2)
                rep.count(f'runs_{backend}')
                rep.seen('configs', [backend, scn['max_workers']])
                rep.sample({'scenario': scn_summary(scn, out),
                            'starts': [{k: e[k] for k in ('name', 'pid', 'ppid', 'glob', 'ctxkeys')} for e in starts[:4]],
                            'caller_pid': out.caller_pid})
        finally:
            engine.cleanup(out)
    if len(keysets) == 2:
        rep.count('context_pairs_compared')
        if keysets[0] != keysets[1]:
            rep.violation('context-changes-keys', f'storage keys differ between two contexts: {keysets}', {'scenario': scn})


def run_shard(rep):
    from vlab.dagcommon import scenario_rng
    cfg = META['tiers'][rep.tier]
    rep.require('executions_observed', 300)
    rep.require('runs_spawn', 10)
    rep.require('runs_fork', 10)
    rep.require('runs_serial', 5)
    rep.require('executions_after_a_task_rebound_the_context', 20)
    rep.require('runs_of_the_same_task_objects_under_another_lab_context', 20)
    rep.require('entries_evicted_between_planning_and_loading', 5)
    for j in range(rep.shard, cfg['n'], rep.nshards):
        if rep.expired():
            rep.count('skipped_for_time')
            continue
        one(rep, scenario_rng(rep.seed, 'C16', j), j)


def replay(rep, wit):
    import random
    rep.case('a', True)
    rep.case('b', True)
    one(rep, random.Random(0), 0, scn=wit['witness']['scenario'])
