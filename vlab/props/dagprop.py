"""Shared driver for the properties decided on the DAG engine (C02-C05, C17)."""


def drive(rep, prop, *, make_scn, judge, n_sim, n_real, real_first=True, handles_spin=False):
    """make_scn(rng, real: bool) -> scenario; judge(rep, scn, out) -> nontrivial bool."""
    from vlab import engine
    from vlab.dagcommon import scenario_rng, scn_key, scn_summary
    jobs = [('real', j) for j in range(n_real)] + [('sim', j) for j in range(n_sim)]
    for kind, j in jobs[rep.shard::rep.nshards]:
        if rep.expired():
            rep.count('skipped_for_time')
            continue
        if handles_spin and sum(1 for v in rep.violations if v['msg'].startswith('run_tasks never terminates')) >= 2:
            rep.count('stopped_after_repeated_hangs')
            break
        rng = scenario_rng(rep.seed, prop + kind, j)
        scn = make_scn(rng, kind == 'real')
        out = engine.run_dag(scn)
        if getattr(out, 'aborted', None):
            hang = out.aborted.startswith('watchdog') and not getattr(out, 'alive_at_abort', None)
            if (out.aborted.startswith('spin') or hang) and handles_spin:
                rep.violation(handles_spin if isinstance(handles_spin, str) else 'never-terminates',
                              f'run_tasks never terminates / never starts runnable work: {out.aborted}',
                              {'scenario': scn})
                rep.case(scn_key(scn), True)
            else:
                rep.inconclusive(f'harness abort: {out.aborted[:200]}', {'scenario': scn})
            continue
        nontrivial = judge(rep, scn, out)
        rep.case(scn_key(scn), nontrivial)
        rep.count(f'runs_{scn["backend"]}')
        rep.count('completions_observed', sum(1 for x in out.trace.calls if x['op'] == 'yield'))
        rep.count('rest_points', len(out.rests))
        rep.seen('dag_shapes', [scn['spec']['shape'], len(scn['spec']['tasks'])])
        rep.seen('completion_orders', [x['name'] for x in out.trace.calls if x['op'] == 'yield'])
        for r in out.rests:
            rep.seen('rest_states', [sorted(r['started']), len(r['inflight'])])
        for e in out.events:
            rep.count('ev_' + e['k'])
        if out.exc is not None:
            rep.foreign[f'run_tasks raised {type(out.exc).__name__}'] += 0   # placeholder, set by judge
        if len(rep.samples) < 2 and nontrivial:
            rep.sample(scn_summary(scn, out))


def report_bad(rep, scn, bad, limit=3, out=None):
    seen = set()
    wit = {'scenario': scn}
    if out is not None and bad:
        # what the monitors observed, so that a verdict that does not replay can still be analysed
        wit['observed_events'] = [{k: e.get(k) for k in ('k', 't', 'name', 'pid', 'gen', 'status', 'use_cache') if k in e}
                                  for e in out.events if e.get('k') in ('launch', 'start', 'end')][:200]
        wit['observed_calls'] = [{'op': c['op'], 'name': c.get('name')} for c in out.trace.calls][:300]
    for key, msg in bad:
        if key in seen:
            continue
        seen.add(key)
        if len(seen) > limit:
            break
        rep.violation(key, msg, wit)


def replay_with(rep, wit, judge):
    from vlab import engine
    scn = wit['witness']['scenario']
    out = engine.run_dag(scn)
    judge(rep, scn, out)
    rep.case(['replay'], True)
    rep.case(['replay2'], True)
