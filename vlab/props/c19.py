"""C19 - messages emitted by a task reach the caller's log exactly once."""

META = {
    'level': 'exploration',
    'rule': ('1-6 task DAGs on fork/spawn (gate-controlled release order decides which task finishes in the last '
             'polling round; also free-running and single-task runs) and serial; every task emits unique tokens '
             'through labtech.logger (info/warning/error; records carrying exc_info; records whose %-arguments cannot be pickled) and, on process backends, through print/sys.std*.write in a '
             'planned pattern (no flush, one flush, several flushes, several lines per flush, write without newline, '
             'stderr, thousands of lines in one record (thorough tier), thousands of separate records from one task (2-4 % of the runs)); in 45 % of the runs some tasks fail AFTER emitting (ValueError / SystemExit / unpicklable exception, or the worker process dies on the spot through os._exit / SIGKILL - then everything it had handed to the logger or flushed counts, output still in its stream buffer does not). In 40 % of the runs a second, file-backed handler sits beside it (both must get every record once, and only in the calling process). A logging.Handler on labtech.logger in the caller '
             'collects records; it is read at the moment run_tasks returns. Oracle: every emitted token occurs '
             'exactly once over all received records. Distinct by (DAG, patterns, backend, schedule seed); '
             'non-trivial when the task finishing last emits something or a task flushes more than once.'),
    'assumptions': ['stdout/stderr capture is only promised for process backends',
                    'tokens are unique strings; a token is "delivered once" when it occurs exactly once in the '
                    'concatenation of all record messages'],
    'tiers': {
        'quick': {'shards': 16, 'budget_s': 45, 'n': 900},
        'thorough': {'shards': 16, 'budget_s': 300, 'n': 12000},
    },
}


def gen_pattern(rng, name, process_backend, big=False):
    """Returns (ops, tokens: {token: channel})."""
    toks = {}
    ops = []
    n = [0]

    def tok(ch):
        n[0] += 1
        t = f'TOK-{name}-{n[0]}-{rng.randrange(1 << 32):08x}-END'
        toks[t] = ch
        return t
    for _ in range(rng.randrange(0, 3)):
        ops.append(['log', rng.choice(['info', 'warning', 'error']), tok('logger')])
    if rng.random() < 0.15:
        ops.append(['logexc', tok('logger-exc_info')])
    if rng.random() < 0.15:
        ops.append(['logobj', tok('logger-unpicklable-args')])
    r = rng.random()
    if r < 0.12:
        # the task makes its own logging more verbose than the caller's (labtech.logger.setLevel inside run())
        ops += [['setlevel', 'DEBUG'], ['log', 'debug', tok('logger-debug')], ['log', 'info', tok('logger')]]
    elif r < 0.18:
        ops += [['setlevel', 'ERROR'], ['log', 'info', tok('logger')], ['log', 'error', tok('logger')]]
    if big == 'records':
        # thousands of separate RECORDS (not lines of one record) between two drains of the log queue
        for _ in range(6000):
            ops.append(['log', 'info', tok('logger-flood')])
        if process_backend:
            for _ in range(600):
                ops += [['print', 'out', tok('stdout-flood')], ['flush', 'out']]
        return ops, toks
    if process_backend:
        kind = rng.choice(['none', 'noflush', 'oneflush', 'multiflush', 'multiline', 'nonewline', 'stderr', 'mixed']
                          + (['huge'] if big else []))
        if kind == 'noflush':
            ops.append(['print', 'out', tok('stdout-unflushed')])
        elif kind == 'oneflush':
            ops += [['print', 'out', tok('stdout')], ['flush', 'out']]
        elif kind == 'multiflush':
            for _ in range(rng.randrange(2, 4)):
                ops += [['print', 'out', tok('stdout-multiflush')], ['flush', 'out']]
        elif kind == 'multiline':
            ops += [['print', 'out', tok('stdout')], ['print', 'out', tok('stdout')], ['print', 'out', tok('stdout')],
                    ['flush', 'out']]
        elif kind == 'nonewline':
            ops += [['write', 'out', tok('stdout-nonewline')], ['flush', 'out']]
        elif kind == 'stderr':
            ops += [['print', 'err', tok('stderr')], ['flush', 'err'], ['print', 'err', tok('stderr-unflushed')]]
        elif kind == 'mixed':
            ops += [['print', 'out', tok('stdout')], ['log', 'info', tok('logger')], ['flush', 'out'],
                    ['print', 'err', tok('stderr-unflushed')], ['print', 'out', tok('stdout-multiflush')], ['flush', 'out'],
                    ['log', 'error', tok('logger')]]
        elif kind == 'huge':
            for _ in range(3000):
                ops.append(['print', 'out', tok('stdout-huge')])
            ops.append(['flush', 'out'])
        if rng.random() < 0.4:
            ops.append(['log', 'info', tok('logger-after-print')])
    return ops, toks


def one(rep, rng, j):
    import json
    from vlab import engine
    from vlab.dagcommon import gen_dag_scenario, scn_key, scn_summary
    backend = rng.choice(['fork', 'fork', 'fork', 'spawn', 'serial'])
    single = rng.random() < 0.3
    scn = gen_dag_scenario(rng, backend=backend, nmax=(2 if single else rng.choice([3, 4, 6])), precache=False,
                           fresh=False, shape=('chain' if single else rng.choice([None, 'wide', 'fanin', 'chain'])),
                           types=(('NA', 4), ('NB', 1), ('NN', 1)))
    spec = scn['spec']
    if single:
        first = list(spec['tasks'])[0]
        spec['tasks'] = {first: spec['tasks'][first]}
        spec['requested'] = [first]
    elif backend != 'serial' and len(spec['tasks']) > 6:
        pass
    scn['max_workers'] = rng.choice([1, 2, 3])
    proc = backend != 'serial'
    tokens = {}
    plan = {}
    big = rep.tier == 'thorough' and rng.random() < 0.05
    flood = rng.random() < (0.02 if rep.tier == 'quick' else 0.04)
    for n in spec['tasks']:
        ops, toks = gen_pattern(rng, n, proc, 'records' if (flood and n == list(spec['tasks'])[0]) else big)
        plan[n] = {'logs': ops}
        tokens.update({t: (n, ch) for t, ch in toks.items()})
    scn['task_plan'] = plan
    if rng.random() < 0.45:
        # some tasks fail AFTER emitting (the body logs, then raises): their output must arrive too
        names = list(spec['tasks'])
        kinds = ['raise:ValueError', 'raise:ValueError', 'raise:SystemExit', 'raise:Multi']
        if proc:
            # ... or the worker process dies on the spot after emitting (os._exit, SIGKILL): what it handed to the
            # logger (records, flushed output) before that must still arrive
            kinds += ['exit', 'kill', 'exit']
        scn['failing'] = {n: rng.choice(kinds) for n in rng.sample(names, rng.randrange(1, min(3, len(names)) + 1))}
        scn['cof'] = rng.random() < 0.75      # with False run_tasks leaves by raising LabError at the first failure
    scn['file_sink'] = rng.random() < 0.4      # a second handler on the labtech logger, with a cross-process sink
    if rng.random() < 0.2:
        # the calling program set the verbosity of the labtech logger before the run; what a task's own logger
        # emits (fork/serial: the inherited level; spawn: the level of a fresh import) must still arrive
        scn['logger_level'] = rng.choice(['WARNING', 'ERROR', 'DEBUG'])
    if proc:
        scn['gated'] = rng.random() < 0.6
        if not scn['gated']:
            scn['free_sleep'] = [0.0, 0.0, 0.01]
    out = engine.run_dag(scn)
    wit = {'scenario': scn}
    raised_lab_error = out.exc is not None and type(out.exc).__name__ == 'LabError' and not scn.get('cof', True)
    if getattr(out, 'aborted', None) or (out.exc is not None and not raised_lab_error):
        rep.inconclusive(f'run did not complete normally: {getattr(out, "aborted", None) or out.exc_info}', wit)
        return
    text = '\n'.join(m for _, m in out.logs)
    yields = [c['name'] for c in out.trace.calls if c['op'] == 'yield']
    last_round = []
    for c in reversed(out.trace.calls):
        if c['op'] == 'yield':
            last_round.append(c['name'])
        elif c['op'] == 'wait' and last_round:
            break
    bad = {}
    from vlab import oracles
    E, _ = oracles.planned(scn, out)
    tainted = oracles.tainted_set(scn, out)
    from vlab.gen import flat_deps

    def emits(n):
        # executed, and no dependency failed (a task whose dependency failed raises before it logs anything)
        return n in E and not any(d in tainted for d in flat_deps(spec, n))
    if raised_lab_error:
        rep.count('runs_left_by_LabError')
    import re as _re
    from collections import Counter as _Counter
    occ = _Counter(_re.findall(r'TOK-[A-Za-z0-9_]+-\d+-[0-9a-f]{8}-END', text))
    if flood:
        rep.count('runs_with_thousands_of_records')
    # output still sitting in the dead process's stream buffer (printed, never flushed) died with it
    died_unflushed = set()
    for n, a in (scn.get('failing') or {}).items():
        if a in ('exit', 'kill', 'exit0'):
            pend = {'out': [], 'err': []}
            for op in plan[n]['logs']:
                if op[0] in ('print', 'write'):
                    pend[op[1]].append(op[2])
                elif op[0] == 'flush':
                    pend[op[1]] = []
            died_unflushed.update(pend['out'] + pend['err'])
            rep.count('tasks_that_died_after_emitting')
    suppressed = {t for e in out.events if e['k'] == 'log-suppressed' for t in e['toks']} | died_unflushed
    if suppressed:
        rep.count('records_suppressed_by_the_tasks_own_logger_level', len(suppressed))
    for t, (n, ch) in tokens.items():
        if not emits(n):
            continue        # never got to its logging statements
        if t in suppressed:
            continue        # not emitted: disabled by the level of the logger in the process that ran the task
        if raised_lab_error and n not in yields:
            # run_tasks left by raising: only the tasks whose completion it had been handed count; the rest may
            # still be running (but nothing may be duplicated)
            if occ.get(t, 0) > 1:
                bad.setdefault('duplicated:' + ch, f'token of {n} received {occ.get(t, 0)} times')
            continue
        if n in (scn.get('failing') or {}):
            rep.count('tokens_of_failing_tasks')
        k = occ.get(t, 0)
        rep.count('tokens_checked')
        if ch == 'logger-debug' or scn.get('logger_level'):
            rep.count('tokens_checked_with_differing_logger_levels')
        rep.count('tokens_' + ch.split('-')[0])
        if k != 1:
            where = 'last-round' if n in last_round else 'earlier-round'
            key = ('lost' if k == 0 else 'duplicated') + ':' + ch
            bad.setdefault(key, f'token of task {n} ({ch}, task finished in the {where}; backend {backend}) '
                           f'received {k} times; completion order {yields}')
    if out.file_logs is not None:
        # every handler of the caller's labtech logger gets each record exactly once, in the calling process
        rep.count('runs_with_a_second_file_backed_handler')
        ftext = '\n'.join(m for _, m in out.file_logs)
        focc = _Counter(_re.findall(r'TOK-[A-Za-z0-9_]+-\d+-[0-9a-f]{8}-END', ftext))
        foreign_pids = sorted({p for p, _ in out.file_logs if p != out.caller_pid})
        if foreign_pids:
            bad.setdefault('handler-ran-in-worker', f'a handler of the calling process\'s labtech logger emitted '
                           f'{sum(1 for p, _ in out.file_logs if p != out.caller_pid)} record(s) inside other processes '
                           f'{foreign_pids[:4]} (backend {backend})')
        for t, k in occ.items():
            if t in tokens and focc.get(t, 0) != k and not (raised_lab_error and tokens[t][0] not in yields):
                bad.setdefault('handlers-disagree:' + tokens[t][1], f'token of {tokens[t][0]} reached the in-memory handler '
                               f'{k} time(s) and the file-backed handler {focc.get(t, 0)} time(s)')
                break
    for key, msg in bad.items():
        rep.violation(key, msg, wit)
    last_emits = any(tokens[t][0] in last_round for t in tokens)
    if any(n in last_round for n in (scn.get('failing') or {})):
        rep.count('runs_where_a_failing_task_finishes_last')
    multi = any(ch == 'stdout-multiflush' for _, ch in tokens.values())
    rep.case(scn_key(scn) + [json.dumps(plan, sort_keys=True)[:2000]], last_emits or multi)
    rep.count(f'runs_{backend}')
    rep.count('records_received', len(out.logs))
    rep.seen('last_finishers', sorted(last_round))
    if single:
        rep.count('single_task_runs')
    if len(rep.samples) < 2 and tokens:
        rep.sample({'scenario': scn_summary(scn, out), 'patterns': {n: p['logs'][:6] for n, p in plan.items()},
                    'records': out.logs[:6]})


def run_shard(rep):
    from vlab.dagcommon import scenario_rng
    cfg = META['tiers'][rep.tier]
    rep.require('tokens_checked', 1000)
    rep.require('single_task_runs', 30)
    rep.require('tokens_of_failing_tasks', 100)
    rep.require('tasks_that_died_after_emitting', 20)
    rep.require('runs_with_a_second_file_backed_handler', 50)
    rep.require('tokens_checked_with_differing_logger_levels', 100)
    for j in range(rep.shard, cfg['n'], rep.nshards):
        if rep.expired():
            rep.count('skipped_for_time')
            continue
        one(rep, scenario_rng(rep.seed, 'C19', j), j)


def replay(rep, wit):
    from vlab import engine
    rep.case('a', True)
    rep.case('b', True)
    scn = wit['witness']['scenario']
    out = engine.run_dag(scn)
    text = '\n'.join(m for _, m in out.logs)
    suppressed = {t for e in out.events if e['k'] == 'log-suppressed' for t in e['toks']}
    for n, p in scn['task_plan'].items():
        for op in p['logs']:
            t = op[1] if op[0] in ('logexc', 'logobj') else (op[2] if op[0] in ('log', 'print', 'write') else None)
            if t is not None and t not in suppressed and text.count(t) != 1:
                rep.violation('lost-or-duplicated', f'{op} of {n} received {text.count(t)} times', wit['witness'])
                return
