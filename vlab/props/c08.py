"""C08 - cache contents evolve exactly as run, bust_cache and uncache dictate."""

META = {
    'level': 'exploration',
    'rule': ('Random histories (length <= 8 quick / <= 15 thorough) of run_tasks(subset, bust_cache?), '
             'uncache_tasks(subset), is_cached, cached_tasks - 30 % of the runs with failing tasks, whose stored entries must stay exactly as they were - over a universe of 3-8 dependent tasks of types {Pickle '
             'cache, JSON cache, cache=None, max_parallel=1} x storage {LocalStorage, str path, pathlib.Path, relative str / Path with tasks that chdir inside run(), fsspec-local, '
             'fsspec-memory (serial), storage=None} x backend {serial mostly, fork, spawn}. After every operation the '
             'observable state (is_cached of every universe task, key set behind cached_tasks, returned values, set '
             'of executed tasks from start events) is compared with a plain dict model {task -> generation-stamped '
             'value}; under storage=None an audit hook checks that nothing but os.devnull is opened for writing. '
             'Distinct by (universe, history, storage, backend); non-trivial when the history contains >= 2 runs and '
             '>= 1 uncache or bust_cache.'),
    'assumptions': ['cached_tasks compared by key set and count (faithful reconstruction is C09)',
                    'fsspec memory file system is per process: serial backend only'],
    'tiers': {
        'quick': {'shards': 16, 'budget_s': 45, 'n': 1400, 'maxlen': 8},
        'thorough': {'shards': 16, 'budget_s': 300, 'n': 30000, 'maxlen': 15},
    },
}

TYPES = (('NA', 2), ('_ple', 1), ('N__U_', 2), ('NB', 1), ('NN', 2), ('NJ', 2))
_AUDIT = {'armed': False, 'writes': [], 'installed': False}


def _audit(event, args):
    if _AUDIT['armed'] and event == 'open':
        path, mode = args[0], args[1]
        if isinstance(mode, str) and any(c in mode for c in 'wax+') and isinstance(path, (str, bytes)):
            _AUDIT['writes'].append(str(path))


def gen_history(rng, names, maxlen):
    ops = []
    for _ in range(rng.randrange(2, maxlen + 1)):
        r = rng.random()
        sub = rng.sample(names, rng.randrange(1, len(names) + 1))
        if r < 0.55:
            op = ['run', sub, rng.random() < 0.25]
            if rng.random() < 0.3:
                # some tasks of this run fail: nothing stored for them may change
                op.append(rng.sample(names, rng.randrange(1, min(2, len(names)) + 1)))
            ops.append(op)
        elif r < 0.85:
            ops.append(['uncache', sub])
        else:
            ops.append(['probe'])
    return ops


def run_history(rep, case):
    import os
    import sys
    import labtech
    from vlab import engine, events
    from vlab.body import base_of, combine, ctx_digest
    from vlab.gen import Built, flat_deps
    from vlab.model import cacheable, dedup, plan
    from vlab.storages import make_storage
    from vlab.tasks_core import TYPES as TT
    spec, ops, skind, backend = case['spec'], case['ops'], case['storage'], case['backend']
    names = list(spec['tasks'])
    ctl = engine.new_ctl('vlab-c08-')
    store = os.path.join(ctl, 'store')
    engine.quiet_labtech()
    if not _AUDIT['installed']:
        sys.addaudithook(_audit)
        _AUDIT['installed'] = True
    bad = []
    cwd0 = os.getcwd()
    relative = skind in ('relstr', 'relpath')
    if relative:
        # the Lab is given a RELATIVE storage directory; some tasks change the working directory inside run() (for
        # good under the serial backend): the storage stays where it was when the Lab was created
        os.makedirs(os.path.join(ctl, 'elsewhere', 'deeper'), exist_ok=True)
        os.chdir(ctl)
    try:
        def mklab():
            return labtech.Lab(storage=make_storage(skind, store), runner_backend=backend, max_workers=case.get('max_workers'),
                               context={})
        lab = mklab()
        inspect = make_storage('local' if skind in ('pathstr', 'pathobj', 'relstr', 'relpath') else skind, store)
        persists = skind != 'null'
        cache = {}
        gen = 0
        utypes = sorted({TT[spec['tasks'][n]['type']] for n in names}, key=lambda c: c.__name__)
        keyof = {n: Built(spec).inst(n).cache_key for n in names}
        shared = Built(spec) if case.get('reuse') else None     # the same task objects across the whole history

        def check_state(after):
            b = Built(spec)
            for n in names:
                rep.count('is_cached_checks')
                got = lab.is_cached(b.inst(n))
                if got != (n in cache):
                    bad.append((('phantom-entry' if got else 'entry-lost'),
                                f'after {after}: is_cached({n})={got}, model says {n in cache}'))
            try:
                keys = sorted(t.cache_key for t in lab.cached_tasks(utypes))
            except BaseException as ex:   # noqa
                bad.append((f'cached_tasks-raised:{type(ex).__name__}@{skind}', f'after {after}: cached_tasks raised '
                            f'{type(ex).__name__}: {ex}'))
                return
            rep.count('cached_tasks_checks')
            want = sorted(keyof[n] for n in cache)
            if inspect is not None:
                raw = sorted(inspect.find_keys())
                if raw != want:
                    bad.append(('storage-keys-differ', f'after {after}: storage holds keys {raw}, model {want}'))
            if keys != want:
                bad.append(('cached_tasks-keyset-differs', f'after {after}: cached_tasks keys {keys} != model {want}'))

        for i, op in enumerate(ops):
            if bad:
                break
            if rep is not None:
                rep.count('op_' + op[0])
            if op[0] == 'run':
                sub, bust = op[1], op[2]
                failing = set(op[3]) if len(op) > 3 else set()
                gen += 1
                tplan = {n: {'act': 'raise:ValueError'} for n in failing}
                if relative:
                    for i, n in enumerate(case.get('chdir_tasks') or ()):
                        tplan.setdefault(n, {})['chdir'] = os.path.join(ctl, 'elsewhere', *(['deeper'] if i % 2 else []))
                    rep.count('runs_with_relative_storage_and_chdir_tasks')
                engine.write_plan(ctl, gen, tplan)
                E, L = plan(spec, sub, set(cache), bust)
                from vlab.model import taint
                tainted = taint(spec, failing & E, E)
                if failing & E:
                    rep.count('runs_with_failing_tasks')
                newv = {}

                def val(n):
                    if n in newv:
                        return newv[n]
                    if n in L:
                        return cache[n]
                    t = spec['tasks'][n]
                    deps = [(d, val(d)) for d in flat_deps(spec, n)]
                    newv[n] = combine(t['type'], n, t['p'], deps, ctx_digest({}), gen)
                    return newv[n]
                for n in E:
                    if n not in tainted:
                        val(n)
                pre = len(events.read_events(ctl))
                b = shared or Built(spec)
                if case.get('fresh_lab'):
                    lab = mklab()
                _AUDIT['writes'] = []
                _AUDIT['armed'] = not persists
                try:
                    if len(sub) == 1 and not failing and case.get('use_run_task'):
                        # the single-task convenience API
                        one_t = b.inst(sub[0])
                        res = {one_t: lab.run_task(one_t, bust_cache=bust, disable_progress=True, disable_top=True)}
                        rep.count('run_task_calls')
                    else:
                        res = lab.run_tasks([b.inst(n) for n in sub], bust_cache=bust, disable_progress=True, disable_top=True)
                except BaseException as ex:   # noqa
                    _AUDIT['armed'] = False
                    bad.append((f'run-raised:{type(ex).__name__}', f'op {i} {op}: run_tasks raised {type(ex).__name__}: {ex}'))
                    break
                _AUDIT['armed'] = False
                if not persists:
                    w = [p for p in _AUDIT['writes'] if p != os.devnull and not p.endswith('events.jsonl')
                         and '/plan.json' not in p]
                    if w:
                        bad.append(('null-storage-wrote', f'op {i}: storage=None but files opened for writing: {w[:3]}'))
                got = [(t.name, tuple(base_of(v))) for t, v in res.items()]
                want = [(n, tuple(val(n))) for n in dedup(sub) if n not in tainted]
                rep.count('values_compared', len(got))
                if got != want:
                    bad.append(('wrong-value-or-generation', f'op {i} {op}: returned {got}, model {want}'))
                starts = sorted(e['name'] for e in events.read_events(ctl)[pre:] if e['k'] == 'start')
                if starts != sorted(E):
                    bad.append(('executed-set-differs', f'op {i} {op}: executed {starts}, model {sorted(E)} '
                                f'(cached before: {sorted(cache)})'))
                if persists:
                    for n in E:
                        if cacheable(spec, n) and n not in tainted:
                            cache[n] = newv[n]
            elif op[0] == 'uncache':
                b = shared or Built(spec)
                try:
                    lab.uncache_tasks([b.inst(n) for n in op[1]])
                except BaseException as ex:   # noqa
                    bad.append((f'uncache-raised:{type(ex).__name__}', f'op {i} {op}: {ex}'))
                    break
                for n in op[1]:
                    cache.pop(n, None)
            check_state(f'op {i} {op}')
        return bad
    finally:
        import shutil
        os.chdir(cwd0)
        _AUDIT['armed'] = False
        if skind == 'fsspec-memory':
            try:
                from fsspec.implementations.memory import MemoryFileSystem
                MemoryFileSystem().rm('/vlab-mem', recursive=True)
            except Exception:
                pass
        engine.reap_children()
        shutil.rmtree(ctl, ignore_errors=True)


def mainscript_case(rep, backend, seed):
    """The same kind of history over task types defined in the running script (__main__; __mp_main__ in a
    spawned worker), with the model inside the script."""
    from vlab.mainscript_run import run_mainscript
    wit = {'mainscript': [backend, seed]}
    st, x = run_mainscript(backend, seed)
    if st == 'timeout':
        rep.inconclusive(f'main-script history ({backend}, seed {seed}): timed out', wit)
        return
    if st == 'failed':
        rep.violation('script-tasks-run-failed', f'main-script history ({backend}): the script failed: {x}', wit)
        return
    rep.count('mainscript_histories')
    rep.count('mainscript_is_cached_checks', x['obs']['is_cached_checks'])
    rep.seen('storage_x_backend', f'mainscript/{backend}')
    ops = x['obs']['ops']
    rep.case(['mainscript', backend, seed], sum(1 for o in ops if o[0] == 'run') >= 2)
    seen = set()
    for key, msg in x['bad']:
        if key != 'worker-key-differs' and key not in seen:
            seen.add(key)
            rep.violation(key, f'task types defined in the main script ({backend}): {msg}', wit)


def run_shard(rep):
    import json
    from vlab.dagcommon import scenario_rng
    from vlab.gen import gen_spec
    cfg = META['tiers'][rep.tier]
    rep.require('is_cached_checks', 2000)
    rep.require('cached_tasks_checks', 500)
    rep.require('op_uncache', 300)
    rep.require('mainscript_histories', 12)
    rep.require('runs_with_relative_storage_and_chdir_tasks', 50)
    rep.require('runs_with_failing_tasks', 100)
    for r in range(1 if rep.tier == 'quick' else 4):
        mainscript_case(rep, ['spawn', 'fork', 'serial'][(rep.shard + r) % 3], rep.seed * 1000 + rep.shard * 10 + r)
    for j in range(rep.shard, cfg['n'], rep.nshards):
        if rep.expired():
            rep.count('skipped_for_time')
            continue
        rng = scenario_rng(rep.seed, 'C08', j)
        spec = gen_spec(rng, nmax=rng.choice([3, 5, 8]), types=TYPES, shape=rng.choice([None, 'layered', 'diamond', 'chain']))
        names = list(spec['tasks'])
        backend = rng.choice(['serial'] * 8 + ['fork', 'spawn'])
        skinds = ['local', 'pathstr', 'pathobj', 'relstr', 'relpath', 'fsspec-local', 'null'] + (['fsspec-memory'] if backend == 'serial' else [])
        case = {'spec': spec, 'ops': gen_history(rng, names, cfg['maxlen'] if backend == 'serial' else 5),
                'storage': rng.choice(skinds), 'backend': backend, 'max_workers': rng.choice([1, 2, None]),
                'fresh_lab': rng.random() < 0.3, 'reuse': rng.random() < 0.5, 'use_run_task': rng.random() < 0.5}
        if case['storage'] in ('relstr', 'relpath'):
            case['chdir_tasks'] = rng.sample(names, rng.randrange(1, len(names) + 1))
        bad = run_history(rep, case)
        nruns = sum(1 for o in case['ops'] if o[0] == 'run')
        rep.case([json.dumps(spec, sort_keys=True), case['ops'], case['storage'], backend],
                 nruns >= 2 and any(o[0] == 'uncache' or (o[0] == 'run' and (o[2] or len(o) > 3)) for o in case['ops']))
        rep.seen('storage_x_backend', f"{case['storage']}/{backend}")
        rep.count('histories')
        if case['reuse']:
            rep.count('histories_reusing_task_objects')
        rep.count('ops', len(case['ops']))
        seen = set()
        for key, msg in bad:
            if key not in seen:
                seen.add(key)
                rep.violation(key, msg, {'case': case})
        if len(rep.samples) < 2 and nruns >= 2:
            rep.sample({'universe': {n: [t['type']] for n, t in spec['tasks'].items()}, 'ops': case['ops'],
                        'storage': case['storage'], 'backend': backend})


def replay(rep, wit):
    rep.case('a', True)
    rep.case('b', True)
    if 'mainscript' in wit['witness']:
        mainscript_case(rep, *wit['witness']['mainscript'])
        return
    for key, msg in run_history(rep, wit['witness']['case']):
        rep.violation(key, msg, wit['witness'])
