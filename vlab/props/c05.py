"""C05 - runnable work is started whenever capacity is free."""

META = {
    'level': 'exploration',
    'rule': ('Same workload family as C04 (a fifth of the process-backend runs are preceded, in the same interpreter, by a run that was aborted by LabError while a sibling task was still executing) with more wide/flat DAGs so the executor queue is non-empty when several '
             'slots free up in one polling batch; monitors: (a) at every wait() entry at the Runner boundary no '
             'unsubmitted task has all dependencies yielded and its type below max_parallel (exact, same thread); '
             '(b) at every gate-controlled rest point the set of launched-and-unfinished worker processes (ledger) '
             'and of tasks inside run() equals the first max_workers in-flight tasks; (c) serial: every wait() with '
             'pending submissions executes and yields exactly one task; (d) tasks whose process outlives run() (a non-daemon thread keeps it alive after the result was handed over): the lingering thread itself watches the shared event log and leaves once another task has started after its own end - a runnable task that is only started once such an unrelated process has exited is a violation (logical verdict, confirmed with a 60 s bound). Distinct by (DAG, config, schedule seed); '
             'non-trivial when at some rest/wait more tasks were in flight than max_workers or a type limit was '
             'binding.'),
    'assumptions': ['child start-up wait (20 s) expiring with enough launches is inconclusive, not violated'],
    'tiers': {
        'quick': {'shards': 16, 'budget_s': 45, 'n_sim': 2400, 'n_real': 200, 'n_linger': 32},
        'thorough': {'shards': 16, 'budget_s': 330, 'n_sim': 40000, 'n_real': 2400, 'n_linger': 320},
    },
}


def make_scn(rng, real):
    from vlab.props.c04 import make_scn as mk
    scn = mk(rng, real)
    if scn['backend'] in ('fork', 'spawn'):
        scn['gated'] = True
        scn.pop('free_sleep', None)
        scn['release_bias'] = rng.choice([0.4, 0.7, 0.9])
        scn['prelude_abort'] = rng.random() < 0.2
    return scn


def judge(rep, scn, out):
    from vlab import oracles
    from vlab.props.dagprop import report_bad
    bad, inconc, checks = oracles.c05(scn, out)
    rep.count('progress_checks', checks)
    if out.exc is not None:
        rep.foreign[f'run_tasks raised {type(out.exc).__name__}'] += 1
    for m in inconc:
        rep.inconclusive(m, {'scenario': scn})
    report_bad(rep, scn, bad)
    queued = any(len(r['inflight']) > out.W for r in out.rests) or \
        any(len(c['inflight']) > out.W for c in out.trace.calls if c['op'] == 'wait')
    rep.count('rests_with_queue', sum(1 for r in out.rests if len(r['inflight']) > out.W))
    if getattr(out, 'prelude', None) == 'LabError':
        rep.count('runs_after_an_aborted_run_in_the_same_process')
    return queued


def linger_case(rep, rng, timeout=20, scn=None):
    """A task whose process outlives its run() (non-daemon thread): its slot is free as soon as its result has been
    handed over; the runnable tasks behind it must be started without waiting for that process to exit.  The
    lingering thread itself decides: it leaves when it sees a later start (or that everything has started) and
    reports a timeout otherwise - a logical verdict, confirmed by a second run with a three times longer timeout."""
    from vlab import engine
    from vlab.dagcommon import gen_dag_scenario
    if scn is None:
        scn = gen_dag_scenario(rng, backend=rng.choice(['fork', 'fork', 'fork', 'spawn']), shape='wide',
                               nmax=rng.choice([4, 5, 6]), types=(('NA', 5), ('NC', 2)), gated=False, precache=False,
                               fresh=False, workers=(1, 2))
        scn['free_sleep'] = [0.0, 0.01, 0.03]
        scn['pickled_copies'] = False
        names = list(scn['spec']['tasks'])
        scn['spec']['requested'] = names
        lingerers = rng.sample(names, rng.choice([1, 1, 2]))
        scn['task_plan'] = {n: {'linger': {'total': len(names), 'timeout': timeout}} for n in lingerers}
    else:
        for p in scn['task_plan'].values():
            if 'linger' in p:
                p['linger']['timeout'] = timeout
    scn['grace'] = 0.0
    scn['watchdog_s'] = 4 * timeout + 60
    out = engine.run_dag(scn, keep=True)
    try:
        ends = []
        deadline = __import__('time').monotonic() + timeout + 5
        want = len([1 for p in scn['task_plan'].values() if 'linger' in p])
        from vlab import events
        while __import__('time').monotonic() < deadline:
            ends = [e for e in events.read_events(out.ctl) if e['k'] == 'linger-end']
            if len(ends) >= want:
                break
            __import__('time').sleep(0.05)
        return scn, out, ends, want
    finally:
        engine.cleanup(out)


def run_linger(rep, rng):
    scn, out, ends, want = linger_case(rep, rng)
    wit = {'scenario': scn, 'linger': True}
    if getattr(out, 'aborted', None) or out.exc is not None:
        rep.inconclusive(f'linger run did not complete: {getattr(out, "aborted", None) or out.exc_info}', wit)
        return
    if len(ends) < want:
        rep.inconclusive(f'only {len(ends)} of {want} lingering threads reported', wit)
        return
    rep.count('linger_runs')
    rep.count('lingering_processes_observed', len(ends))
    rep.case(['linger', scn['backend'], scn['max_workers'], sorted(scn['task_plan']), scn['sched_seed']], True)
    if any(e['saw'] is None for e in ends):
        # confirm: same scenario, three times the patience
        scn2, out2, ends2, want2 = linger_case(rep, rng, timeout=60, scn=scn)
        if len(ends2) >= want2 and any(e['saw'] is None for e in ends2):
            starts = sorted((e['t'], e['name']) for e in out2.events if e['k'] == 'start')
            rep.violation('runnable-held-until-unrelated-process-exit',
                          f"{scn['backend']}, max_workers={scn['max_workers']}: the process of {[e['name'] for e in ends2 if e['saw'] is None]} "
                          f'stayed alive after handing over its result and saw NO other task start for 60 s although '
                          f'tasks were still waiting to be started; they started only once it had exited '
                          f'(starts: {[n for _, n in starts]}, lingering waits: {[(e["name"], e["waited_s"]) for e in ends2]})', wit)
        else:
            rep.inconclusive('lingering thread timed out once but not under the longer bound: slow host', wit)
    else:
        rep.count('lingerers_that_saw_later_starts', sum(1 for e in ends if e['saw'] == 'later-start'))


def run_shard(rep):
    from vlab.props.dagprop import drive
    from vlab.dagcommon import scenario_rng
    cfg = META['tiers'][rep.tier]
    rep.require('progress_checks', 2000)
    rep.require('rests_with_queue', 50)
    rep.require('lingerers_that_saw_later_starts', 8)
    for j in range(rep.shard, cfg.get('n_linger', 32), rep.nshards):
        run_linger(rep, scenario_rng(rep.seed, 'C05linger', j))
    drive(rep, 'C05', make_scn=make_scn, judge=judge, n_sim=cfg['n_sim'], n_real=cfg['n_real'],
          handles_spin='runnable-never-started')


def replay(rep, wit):
    from vlab.props.dagprop import replay_with
    if wit['witness'].get('linger'):
        import random
        rep.case('a', True)
        rep.case('b', True)
        scn, out, ends, want = linger_case(rep, random.Random(0), timeout=60, scn=wit['witness']['scenario'])
        if len(ends) >= want and any(e['saw'] is None for e in ends):
            rep.violation('runnable-held-until-unrelated-process-exit', f'lingering waits: {[(e["name"], e["saw"], e["waited_s"]) for e in ends]}', wit['witness'])
        return
    replay_with(rep, wit, judge)
