"""C05 - runnable work is started whenever capacity is free."""

META = {
    'level': 'exploration',
    'rule': ('Same workload family as C04 (a fifth of the process-backend runs are preceded, in the same interpreter, by a run that was aborted by LabError while a sibling task was still executing) with more wide/flat DAGs so the executor queue is non-empty when several '
             'slots free up in one polling batch; monitors: (a) at every wait() entry at the Runner boundary no '
             'unsubmitted task has all dependencies yielded and its type below max_parallel (exact, same thread); '
             '(b) at every gate-controlled rest point the set of launched-and-unfinished worker processes (ledger) '
             'and of tasks inside run() equals the first max_workers in-flight tasks; (c) serial: every wait() with '
             'pending submissions executes and yields exactly one task. Distinct by (DAG, config, schedule seed); '
             'non-trivial when at some rest/wait more tasks were in flight than max_workers or a type limit was '
             'binding.'),
    'assumptions': ['child start-up wait (20 s) expiring with enough launches is inconclusive, not violated'],
    'tiers': {
        'quick': {'shards': 16, 'budget_s': 45, 'n_sim': 2400, 'n_real': 200},
        'thorough': {'shards': 16, 'budget_s': 330, 'n_sim': 40000, 'n_real': 2400},
    },
}


def make_scn(rng, real):
    from vlab.props.c04 import make_scn as mk
    scn = mk(rng, real)
    if scn['backend'] in ('fork', 'spawn'):
        scn['gated'] = True
        scn.pop('free_sleep', None)
        scn['release_bias'] = rng.choice([0.4, 0.7, 0.9])
        scn['prelude_abort'] = rng.random() < 0.2
    return scn


def judge(rep, scn, out):
    from vlab import oracles
    from vlab.props.dagprop import report_bad
    bad, inconc, checks = oracles.c05(scn, out)
    rep.count('progress_checks', checks)
    if out.exc is not None:
        rep.foreign[f'run_tasks raised {type(out.exc).__name__}'] += 1
    for m in inconc:
        rep.inconclusive(m, {'scenario': scn})
    report_bad(rep, scn, bad)
    queued = any(len(r['inflight']) > out.W for r in out.rests) or \
        any(len(c['inflight']) > out.W for c in out.trace.calls if c['op'] == 'wait')
    rep.count('rests_with_queue', sum(1 for r in out.rests if len(r['inflight']) > out.W))
    if getattr(out, 'prelude', None) == 'LabError':
        rep.count('runs_after_an_aborted_run_in_the_same_process')
    return queued


def run_shard(rep):
    from vlab.props.dagprop import drive
    cfg = META['tiers'][rep.tier]
    rep.require('progress_checks', 2000)
    rep.require('rests_with_queue', 50)
    drive(rep, 'C05', make_scn=make_scn, judge=judge, n_sim=cfg['n_sim'], n_real=cfg['n_real'],
          handles_spin='runnable-never-started')


def replay(rep, wit):
    from vlab.props.dagprop import replay_with
    replay_with(rep, wit, judge)
