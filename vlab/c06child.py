"""Second run of a C06 case in a fresh interpreter (other hash seed / backend)."""
import json
import os
import sys


def main(jobfile):
    job = json.load(open(jobfile))
    os.environ['VLAB_CTL'] = job['ctl']
    import labtech
    from vlab import engine, events
    from vlab.body import base_of
    from vlab.gen import Built
    from vlab.storages import make_storage
    import random
    engine.quiet_labtech()
    pre = len(events.read_events(job['ctl']))
    built = Built(job['spec'], rng=random.Random(job['build_seed']), fresh_prob=job['fresh_prob'])
    req = built.requested(job['requested'])
    lab = labtech.Lab(storage=make_storage(job['storage'], job['store']), runner_backend=job['backend'],
                      max_workers=job['max_workers'], context=job['ctx'])
    out = {'hashseed': os.environ.get('PYTHONHASHSEED')}
    try:
        out['is_cached'] = {n: lab.is_cached(built.inst(n)) for n in job['spec']['tasks']}
        res = lab.run_tasks(req, disable_progress=True, disable_top=True)
        out['values'] = [[t.name, list(base_of(v))] for t, v in res.items()]
        out['metas'] = [[n, (o.result_meta.start.isoformat() if o.result_meta and o.result_meta.start else None),
                         (o.result_meta.duration.total_seconds() if o.result_meta and o.result_meta.duration is not None else None)]
                        for n, o in [(r.name, r) for r in req] if o.result_meta is not None]
        out['unmarked'] = [r.name for r in req if r.result_meta is None]
        out['starts'] = [e['name'] for e in events.read_events(job['ctl'])[pre:] if e['k'] == 'start']
    except BaseException as ex:   # noqa
        import traceback
        out['error'] = traceback.format_exc()[-1500:]
    with open(job['out'], 'w') as f:
        json.dump(out, f)
    engine.reap_children()


if __name__ == '__main__':
    main(sys.argv[1])
    os._exit(0)
