"""vlab: runtime-monitoring harness for labtech (see /verif/DESIGN.md)."""
