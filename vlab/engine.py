"""Runs one DAG scenario against the real labtech code and returns everything
the monitors observed."""
import gc
import json
import logging
import os
import random
import shutil
import signal
import tempfile
import time

import psutil

from . import body, events
from .gate import GateController, Ledger
from .gen import Built, closure, flat_deps
from .model import cacheable, dedup, plan, ref_value
from .spy import HarnessAbort, Hooks, SimBackend, SpyBackend, Trace
from .storages import make_storage


class FileSinkHandler(logging.Handler):
    """A second handler on the labtech logger whose sink is shared across fork (O_APPEND file): a copy of it that
    survives in a worker and emits there shows up in the file, with the worker's pid."""

    def __init__(self, path):
        super().__init__(level=0)
        self.path = path

    def emit(self, record):
        try:
            fd = os.open(self.path, os.O_WRONLY | os.O_APPEND | os.O_CREAT)
            os.write(fd, (json.dumps([os.getpid(), record.getMessage()]) + '\n').encode())
            os.close(fd)
        except Exception:   # noqa
            pass


class SinkHandler(logging.Handler):
    def __init__(self):
        super().__init__(level=0)
        self.records = []

    def emit(self, record):
        try:
            self.records.append((record.levelname, record.getMessage()))
        except Exception as ex:   # noqa
            self.records.append(('ERR', repr(ex)))


_sink = None


def quiet_labtech():
    """Replace labtech's console handler by an in-memory sink (channel 8)."""
    global _sink
    import labtech
    if _sink is None:
        _sink = SinkHandler()
    labtech.logger.handlers = [_sink]
    labtech.logger.propagate = False
    return _sink


def write_plan(ctl, gen, tasks=None, default=None):
    tmp = os.path.join(ctl, 'plan.json.tmp')
    with open(tmp, 'w') as f:
        json.dump({'gen': gen, 'tasks': tasks or {}, 'default': default or {}}, f)
    os.rename(tmp, os.path.join(ctl, 'plan.json'))


def new_ctl(prefix='vlab-'):
    ctl = tempfile.mkdtemp(prefix=prefix)
    os.makedirs(os.path.join(ctl, 'release'))
    os.makedirs(os.path.join(ctl, 'store'))
    os.environ['VLAB_CTL'] = ctl
    events.reset()
    return ctl


def reap_children(grace=0.0):
    """Kill every leftover descendant of this process (managers, orphan workers).

    Children started through multiprocessing are killed and *joined through their own Process objects*: reaping
    them behind multiprocessing's back (psutil / waitpid) leaves stale entries in multiprocessing.process._children
    whose poll() later does waitpid() on a pid that has been reused by a new labtech worker - that worker is then
    reaped by the stale object, its own Process.is_alive() stays true forever (CPython maps ECHILD to "not started
    yet") and labtech can never notice that it died.  The resource tracker is spared for a similar reason
    (multiprocessing waitpid()s on the old tracker pid when it relaunches it)."""
    import multiprocessing
    import multiprocessing.process as mpp
    try:
        kids = multiprocessing.active_children()
    except Exception:
        kids = []
    for p in kids:
        try:
            p.kill()
        except Exception:
            pass
    for p in kids:
        try:
            p.join(3)
        except Exception:
            pass
    # whatever multiprocessing still believes to be alive but is not our child any more must not poll again
    for p in list(getattr(mpp, '_children', ())):
        try:
            popen = p._popen
            if popen is not None and popen.returncode is None and not psutil.pid_exists(popen.pid):
                popen.returncode = -9
                mpp._children.discard(p)
        except Exception:
            pass
    # descendants that are not multiprocessing children of this process (grandchildren, subprocesses)
    me = psutil.Process()
    rest = []
    mine = {p.pid for p in kids}
    for k in me.children(recursive=True):
        try:
            if 'resource_tracker' in ' '.join(k.cmdline()) or k.pid in mine:
                continue
        except psutil.Error:
            continue
        rest.append(k)
    for k in rest:
        try:
            k.kill()
        except psutil.Error:
            pass
    if rest:
        psutil.wait_procs(rest, timeout=3)


def diag_process(pid, timeout=25):
    """Best-effort diagnosis of a process that should not be alive any more:
    kernel wait channel + Python stack via gdb (hang diagnostics only)."""
    import subprocess
    out = {'pid': pid}
    try:
        out['waitpid'] = repr(os.waitpid(pid, os.WNOHANG))
    except OSError as ex:
        out['waitpid'] = repr(ex)
    for f in ('wchan', 'cmdline'):
        try:
            out[f] = open(f'/proc/{pid}/{f}', 'rb').read().replace(b'\0', b' ').decode('utf-8', 'replace')[:200]
        except OSError as ex:
            out[f] = repr(ex)
    try:
        out['state'] = [ln for ln in open(f'/proc/{pid}/status').read().splitlines() if ln.startswith(('State', 'PPid', 'Threads'))]
    except OSError as ex:
        out['state'] = repr(ex)
    try:
        r = subprocess.run(['gdb', '-p', str(pid), '-batch', '-iex', 'set auto-load safe-path /', '-ex',
                            'thread apply all py-bt'], capture_output=True, timeout=timeout, text=True,
                           stdin=subprocess.DEVNULL)
        out['py_bt'] = r.stdout[-2500:]
    except Exception as ex:   # noqa
        out['py_bt'] = repr(ex)
    return out


def make_backend(kind, sched_seed=0, deaths=(), batch_bias=0.5):
    from labtech.runners import ForkRunnerBackend, SerialRunnerBackend, SpawnRunnerBackend
    if kind == 'sim':
        return SimBackend(sched_seed, deaths=deaths, batch_bias=batch_bias)
    if kind == 'serial':
        return SerialRunnerBackend()
    if kind == 'fork':
        return ForkRunnerBackend()
    if kind == 'spawn':
        return SpawnRunnerBackend()
    raise ValueError(kind)


class Outcome:
    pass


def exc_info(ex):
    if ex is None:
        return None
    cause = ex.__cause__
    where = None
    tb = ex.__traceback__
    while tb is not None:
        fn = tb.tb_frame.f_code.co_filename
        if '/labtech/' in fn:
            where = f"{fn.rsplit('/labtech/', 1)[1]}:{tb.tb_frame.f_code.co_name}"
        tb = tb.tb_next
    return {'type': type(ex).__name__, 'where': where, 'str': str(ex)[:300],
            'cause': (type(cause).__name__ if cause is not None else None),
            'cause_str': (str(cause)[:200] if cause is not None else None)}


def run_dag(scn, *, hooks_factory=None, keep=False, extra_hooks=None, before_run=None, after_run=None, prebuilt=None):
    """scn keys: spec, backend, max_workers, sched_seed, fresh_prob, build_seed,
    pre (names pre-run to warm the cache), pre_backend, bust, failing {name: act},
    cof, gated, ctx, storage, free_sleep, displays, requested (override)."""
    import labtech
    spec = scn['spec']
    requested_names = scn.get('requested') or spec['requested']
    backend = scn['backend']
    W_arg = scn.get('max_workers')
    W = (1 if backend == 'serial' else (os.cpu_count() if W_arg is None else W_arg))
    ctx = scn.get('ctx', {'shared': 's', 'for_t0': 'c0', 'for_t1': 'c1', 'other': 'o'})
    body.LAB_CTX, body.LAB_CTX_PID = ctx, os.getpid()
    failing = scn.get('failing') or {}
    out = Outcome()
    out.scn = scn
    out.W = W
    ctl = new_ctl()
    out.ctl = ctl
    store = os.path.join(ctl, 'store')
    sink = quiet_labtech()
    del sink.records[:]
    ledger = Ledger()
    ledger.install()
    trace = Trace()
    out.trace = trace
    try:
        # ---- cache pre-state (generation 0)
        cached = set()
        pre = scn.get('pre') or []
        if pre:
            write_plan(ctl, scn.get('pre_gen', 0))
            b0 = Built(spec)
            lab0 = labtech.Lab(storage=make_storage(scn.get('storage', 'local'), store),
                               runner_backend=SpyBackend(make_backend(scn.get('pre_backend', 'serial')), Trace(), Hooks()),
                               max_workers=scn.get('pre_workers'), context=ctx)
            try:
                lab0.run_tasks([b0.inst(n) for n in pre], disable_progress=True, disable_top=True)
            except HarnessAbort as ex:
                # the spy's spin detector fired while warming the cache
                out.exc = ex
                out.aborted = 'spin (cache pre-run): ' + str(ex)
                out.exc_info = exc_info(ex)
                out.result = None
                out.events = events.read_events(ctl)
                out.rests = []
                out.cached_before = set()
                out.cached_after = set()
                out.ledger = []
                out.logs = []
                out.sim_batches = None
                return out
            cached = {n for n in closure(spec, pre) if cacheable(spec, n)}
            del lab0, b0
            ledger.close_fds()
            del ledger.entries[:]
        out.cached_before = cached
        if scn.get('prelude_abort') and backend in ('fork', 'spawn'):
            # history: an earlier run_tasks call in this process was aborted by LabError (continue_on_failure=False)
            # while another task was still executing
            from . import tasks_core
            write_plan(ctl, 0, {'pa_fail': {'act': 'raise:ValueError'}, 'pa_slow': {'sleep': 0.35}})
            labp = labtech.Lab(storage=None, runner_backend=make_backend(backend), max_workers=W_arg,
                               continue_on_failure=False, context=ctx)
            try:
                labp.run_tasks([tasks_core.NN(name='pa_slow'), tasks_core.NN(name='pa_fail')],
                               disable_progress=True, disable_top=True)
                out.prelude = 'returned'
            except labtech.exceptions.LabError:
                out.prelude = 'LabError'
            except BaseException as ex:   # noqa
                out.prelude = type(ex).__name__
            del labp
            ledger.close_fds()
            del ledger.entries[:]
        pre_events = len(events.read_events(ctl))
        # ---- main run (generation 1)
        default = {}
        tasks_plan = {n: {'act': a} for n, a in failing.items()}
        if scn.get('gated'):
            default['gate'] = True
            for n in tasks_plan:
                tasks_plan[n] = {}       # the action is delivered by the release file
        if scn.get('free_sleep'):
            r = random.Random(scn.get('sched_seed', 0))
            for n in spec['tasks']:
                tasks_plan.setdefault(n, {})['sleep'] = r.choice(scn['free_sleep'])
        for n, ent in (scn.get('task_plan') or {}).items():
            tasks_plan.setdefault(n, {}).update(ent)
        write_plan(ctl, 1, tasks_plan, default)
        brng = random.Random(scn.get('build_seed', 0))
        if prebuilt is not None:
            # the caller runs the very task objects of an earlier run again (another Lab, another context)
            built, req = prebuilt
        else:
            built = Built(spec, rng=brng, fresh_prob=scn.get('fresh_prob', 0.0))
            req = built.requested(requested_names)
        if scn.get('pickled_copies'):
            # the caller passes copies that went through pickle (e.g. tasks received from another process)
            import pickle
            req = pickle.loads(pickle.dumps(req))
            built.instances = []
            seen = set()

            def _walk(t):
                if id(t) in seen:
                    return
                seen.add(id(t))
                built.instances.append((t.name, t))
                for d in body.walk_deps(t):
                    _walk(d)
            for t in req:
                _walk(t)
        out.built = built
        out.req = req
        deaths = [n for n, a in failing.items() if a in ('kill', 'exit', 'exit0')]
        inner = make_backend(backend, scn.get('sched_seed', 0), deaths=deaths,
                             batch_bias=scn.get('batch_bias', 0.5))
        hooks = None
        if scn.get('gated') and backend in ('fork', 'spawn'):
            hooks = GateController(ctl=ctl, rng=random.Random(scn.get('sched_seed', 0)), W=W,
                                   ledger=ledger, acts=failing,
                                   release_bias=scn.get('release_bias', 0.35))
            if hooks_factory is not None:
                hooks = hooks_factory(out, hooks) or hooks
        elif hooks_factory is not None:
            hooks = hooks_factory(out, None)
        if extra_hooks is not None and hooks is None:
            hooks = extra_hooks
        out.hooks = hooks
        spy_backend = SpyBackend(inner, trace, hooks or Hooks())
        lab = labtech.Lab(storage=make_storage(scn.get('storage', 'local'), store),
                          runner_backend=spy_backend, max_workers=W_arg, context=(ctx or None),
                          continue_on_failure=scn.get('cof', True))
        out.lab = lab
        displays = scn.get('displays', False)
        body.GLOBAL = 'mutated-by-caller'
        out.caller_pid = os.getpid()
        import threading
        out.caller_tid = threading.get_native_id()
        # tasks to probe for residual in-memory results at close()
        probe = [obj for _, obj in built.instances]
        orig_on_build = spy_backend.hooks.on_build

        def on_build(spy, _orig=orig_on_build):
            spy.probe_tasks = probe
            _orig(spy)
        spy_backend.hooks.on_build = on_build
        out.result = None
        out.exc = None
        out.ledger_obj = ledger

        def _watchdog(*_a):
            raise HarnessAbort('watchdog: run_tasks did not return within the general scenario bound')
        signal.signal(signal.SIGALRM, _watchdog)
        signal.alarm(scn.get('watchdog_s', 150))     # property-specific hooks may re-arm it with their own bound
        if before_run is not None:
            before_run(out)
        file_sink = None
        if scn.get('file_sink'):
            file_sink = FileSinkHandler(os.path.join(ctl, 'logsink.jsonl'))
            labtech.logger.addHandler(file_sink)
        if scn.get('logger_level'):
            # the caller's program configured the verbosity of the labtech logger (README: logger.setLevel(...))
            labtech.logger.setLevel(getattr(logging, scn['logger_level']))
        out.t_call = time.monotonic_ns()
        try:
            res = lab.run_tasks(req, bust_cache=scn.get('bust', False),
                                disable_progress=not displays, disable_top=not displays)
        except HarnessAbort as ex:
            out.exc = ex
            out.aborted = str(ex)
            out.alive_at_abort = [e['name'] for e in ledger.alive()]
        except BaseException as ex:   # noqa
            out.exc = ex
        else:
            out.result = res
        out.t_return = time.monotonic_ns()
        signal.alarm(0)
        if after_run is not None:
            after_run(out)
        if hooks is not None and isinstance(hooks, GateController):
            hooks.release_all(list(spec['tasks']))
            out.rests = hooks.rests
        else:
            out.rests = []
        out.sim_batches = inner.runner.batches if backend == 'sim' and inner.runner else None
        if scn.get('grace'):
            time.sleep(scn['grace'])
        out.ledger = [{'t': e['t'], 'name': e['name'], 'pid': e['pid'], 'use_cache': e['use_cache']}
                      for e in ledger.entries]
        out.events = events.read_events(ctl)[pre_events:]
        out.logs = list(sink.records)
        out.file_logs = None
        if file_sink is not None:
            labtech.logger.removeHandler(file_sink)
            try:
                with open(file_sink.path) as f:
                    out.file_logs = [json.loads(ln) for ln in f if ln.strip()]
            except FileNotFoundError:
                out.file_logs = []
        out.exc_info = exc_info(out.exc) if out.exc is not None else None
        if out.result is not None:
            out.result_list = [(t.name, body.base_of(v)) for t, v in out.result.items()]
            out.result_keys_identity = [any(t is r for r in req) for t in out.result]
        # ---- optional second call on the SAME lab and the SAME task objects (generation 2, bust_cache)
        sr = scn.get('second_run')
        out.second = None
        if sr and out.exc is None and not (hooks is not None and isinstance(hooks, GateController)):
            n_ev, n_calls = len(events.read_events(ctl)), len(trace.calls)
            write_plan(ctl, 2, {n: {'act': a} for n, a in (sr.get('failing') or {}).items()})
            sec = {'exc': None, 'result_list': None}
            signal.alarm(scn.get('watchdog_s', 150))
            try:
                res2 = lab.run_tasks(req, bust_cache=True, disable_progress=True, disable_top=True)
                sec['result_list'] = [(t.name, body.base_of(v)) for t, v in res2.items()]
            except BaseException as ex:   # noqa
                sec['exc'] = exc_info(ex)
            signal.alarm(0)
            sec['events'] = events.read_events(ctl)[n_ev:]
            sec['calls'] = trace.calls[n_calls:]
            out.second = sec
        # post state, through a fresh Lab
        lab2 = labtech.Lab(storage=make_storage(scn.get('storage', 'local'), store),
                           runner_backend='serial')
        b2 = Built(spec)
        out.cached_after = {n for n in spec['tasks'] if lab2.is_cached(b2.inst(n))}
        return out
    finally:
        labtech.logger.setLevel(logging.INFO)      # tasks of the serial backend or the scenario may have changed it
        ledger.uninstall()
        if not keep:
            cleanup(out)


def cleanup(out):
    try:
        out.lab = None
        out.hooks = None
        gc.collect()
        reap_children()
    finally:
        shutil.rmtree(out.ctl, ignore_errors=True)


def expected_values(scn, out):
    """Reference values for the main run: loaded tasks keep their generation-0
    value, executed ones are generation 1."""
    spec = scn['spec']
    ctx = scn.get('ctx', {'shared': 's', 'for_t0': 'c0', 'for_t1': 'c1', 'other': 'o'})
    memo0 = {}
    stored = {}
    g0 = scn.get('pre_gen', 0)
    if not scn.get('bust'):
        for n in out.cached_before:
            stored[n] = ref_value(spec, n, ctx, lambda _n: g0, memo0)
    memo = {}
    return {n: ref_value(spec, n, ctx, lambda _n: 1, memo, stored) for n in spec['tasks']}, stored
