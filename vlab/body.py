"""The one run() body shared by every harness task type.

What a task does in a given run (succeed, fail, die, block on a gate, log,
shape of its result) is *not* a task parameter: it is read from the plan file
in the control directory ($VLAB_CTL/plan.json), keyed by the task's name, so
the same task can behave differently in different runs of one history and the
behaviour never influences cache keys.
"""
import hashlib
import json
import os
import signal
import sys
import time

from .events import emit

GLOBAL = 'import-time'   # C16: the caller overwrites this after import
LAB_CTX = None           # C16: the very dict object given to Lab(context=...), and the process that owns it
LAB_CTX_PID = None


class MultiArgError(Exception):
    """An exception whose pickle round trip fails (two required arguments,
    one stored in .args)."""

    def __init__(self, a, b):
        super().__init__(f'{a}/{b}')
        self.a = a
        self.b = b


class ChainedError(Exception):
    """The task's own exception, raised `from` a lower-level one (explicit __cause__) or while handling one."""


class PlannedBase(BaseException):
    """A BaseException subclass that is not an Exception."""


class Unpicklable:
    def __reduce__(self):
        raise TypeError('vlab: planned unpicklable object')


class UnpicklableBase:
    """Pickling this raises a BaseException that is not an Exception."""

    def __reduce__(self):
        raise SystemExit(3)


def canon(v):
    """Canonical JSON-able form of a parameter value (harness-owned)."""
    from enum import Enum
    if isinstance(v, (list, tuple)):
        return [canon(x) for x in v]
    if hasattr(v, 'items'):
        return {'__d': [[k, canon(x)] for k, x in v.items()]}
    if isinstance(v, Enum):
        return {'__e': f'{type(v).__module__}.{type(v).__qualname__}.{v.name}'}
    if hasattr(type(v), '_lt'):
        return {'__t': v.name}
    if isinstance(v, float):
        return {'__f': repr(v)}
    if isinstance(v, bool):
        return {'__b': v}
    return v


def ctx_digest(ctx):
    if ctx is None:
        return 'none'
    return hashlib.sha1(json.dumps(ctx, sort_keys=True, default=repr).encode()).hexdigest()[:10]


def base_of(v):
    """Strip a result shape down to the base value."""
    if isinstance(v, dict) and 'v' in v:
        v = v['v']
    if isinstance(v, list):
        v = tuple(v)
    return v


def combine(tname, name, p, dep_vals, ctx_dig, gen):
    """Pure function defining the value of a task; the reference evaluator
    calls it too.  dep_vals: list of (dep name, base value)."""
    blob = json.dumps([tname, name, canon(p), [[d, list(v)] for d, v in dep_vals], ctx_dig, gen])
    return (name, gen, hashlib.sha1(blob.encode()).hexdigest()[:16])


def shape_value(value, shape, task=None):
    if shape in (None, 'small'):
        return value
    if shape == 'big':
        return {'v': value, 'pad': bytes(range(256)) * 1200}
    if shape == 'selfref':
        # the result contains task objects: the task itself and its dependencies
        return {'v': value, 'me': task, 'deps': walk_deps(task) if task is not None else []}
    if shape == 'nested':
        return {'v': value, 'l': [value, (1, 2.5, None, 'x')], 'd': {'k': [list(value)]}}
    if shape.startswith('unpicklable'):
        depth = int(shape.split(':')[1]) if ':' in shape else 0
        obj = UnpicklableBase() if 'sysexit' in shape else Unpicklable()
        for i in range(depth):
            obj = {'pad': 'y' * 50, 'in': [i, obj]}
        if shape.startswith('unpicklable-big'):
            return {'v': value, 'pad': bytes(range(256)) * 1200, 'bad': obj}
        return {'v': value, 'bad': obj}
    raise ValueError(shape)


def walk_deps(task):
    """Harness-owned walk over a task's parameters: dependency task instances
    in field order, tree order, with repeats."""
    out = []

    def rec(v):
        if hasattr(type(v), '_lt') and hasattr(v, '_is_task'):
            out.append(v)
        elif isinstance(v, (tuple, list)):
            for x in v:
                rec(x)
        elif hasattr(v, 'items'):
            for x in v.values():
                rec(x)
    from dataclasses import fields
    for f in fields(task):
        rec(getattr(task, f.name))
    return out


def load_plan():
    path = os.path.join(os.environ['VLAB_CTL'], 'plan.json')
    for _ in range(50):
        try:
            with open(path) as f:
                return json.load(f)
        except (FileNotFoundError, ValueError):
            time.sleep(0.002)
    raise RuntimeError('vlab: no plan file')


def plan_entry(plan, name):
    ent = dict(plan.get('default', {}))
    ent.update(plan.get('tasks', {}).get(name, {}))
    return ent


def do_logs(ops):
    import logging
    from labtech import logger
    suppressed = []
    # labtech turns captured stdout into INFO records and captured stderr into ERROR records of the task's logger
    # when the stream is flushed: lines flushed while that logger is not enabled for the level are not emitted
    unflushed = {'out': [], 'err': []}
    stream_level = {'out': logging.INFO, 'err': logging.ERROR}
    for op in ops or ():
        kind = op[0]
        if kind == 'log':
            if not logger.isEnabledFor(getattr(logging, op[1].upper())):
                suppressed.append(op[2])      # the task's own logger does not emit this record at all
            getattr(logger, op[1])(op[2])
        elif kind == 'logexc':
            # a record that carries exc_info (logger.exception inside an except block)
            if not logger.isEnabledFor(logging.ERROR):
                suppressed.append(op[1])
            try:
                raise KeyError('recovered')
            except KeyError:
                logger.exception(op[1])
        elif kind == 'logobj':
            # %-style arguments that cannot be pickled (a lock, a lambda): the record must still arrive, formatted
            if not logger.isEnabledFor(logging.WARNING):
                suppressed.append(op[1])
            import threading
            logger.warning('%s with %s and %s', op[1], threading.Lock(), (lambda: 0))
        elif kind == 'setlevel':
            logger.setLevel(getattr(logging, op[1]))
        elif kind == 'print':
            unflushed[op[1]].append(op[2])
            print(op[2], file=(sys.stdout if op[1] == 'out' else sys.stderr))
        elif kind == 'write':
            unflushed[op[1]].append(op[2])
            (sys.stdout if op[1] == 'out' else sys.stderr).write(op[2])
        elif kind == 'flush':
            if not logger.isEnabledFor(stream_level[op[1]]):
                suppressed += unflushed[op[1]]
            unflushed[op[1]] = []
            (sys.stdout if op[1] == 'out' else sys.stderr).flush()
    for ch, toks in unflushed.items():      # flushed by labtech when the task ends, under the level left behind
        if toks and not logger.isEnabledFor(stream_level[ch]):
            suppressed += toks
    if suppressed:
        emit('log-suppressed', toks=suppressed[:20000])


def run_body(task):
    name = task.name
    tname = type(task).__name__
    plan = load_plan()
    ent = plan_entry(plan, name)
    gen = plan.get('gen', 0)
    ctx = task.context
    emit('start', name=name, type=tname, gen=gen, ppid=os.getppid(), glob=GLOBAL,
         ctx=ctx_digest(ctx), ctxkeys=(sorted(ctx) if isinstance(ctx, dict) else None),
         extra=getattr(task, 'derived', None))
    act = ent.get('act', 'ok')
    if ent.get('chdir'):
        os.chdir(ent['chdir'])      # a task that works in its own directory (and never comes back)
    if ent.get('gate'):
        rel = os.path.join(os.environ['VLAB_CTL'], 'release', name)
        deadline = time.monotonic() + ent.get('gate_timeout', 120)
        while not os.path.exists(rel):
            if time.monotonic() > deadline:
                emit('gate-timeout', name=name)
                os._exit(97)
            time.sleep(0.001)
        for _ in range(20):
            try:
                with open(rel) as f:
                    txt = f.read().strip()
                break
            except OSError:
                time.sleep(0.001)
        if txt:
            act = txt
        emit('go', name=name, gen=gen)
    if ent.get('sleep'):
        time.sleep(ent['sleep'])
    dep_vals = []
    failed = None
    for dep in walk_deps(task):
        try:
            v = dep.result
        except BaseException as ex:   # noqa
            emit('read', name=name, dep=dep.name, raised=type(ex).__name__)
            if failed is None:
                failed = ex
        else:
            b = base_of(v)
            emit('read', name=name, dep=dep.name, v=list(b) if isinstance(b, tuple) else repr(b))
            dep_vals.append((dep.name, b))
    if failed is not None:
        emit('end', name=name, gen=gen, status='depfail')
        raise failed
    do_logs(ent.get('logs'))
    if act != 'ok':
        emit('end', name=name, gen=gen, status=act)
        if act == 'raise:ValueError':
            raise ValueError(f'planned failure of {name}')
        if act == 'raise:Multi':
            raise MultiArgError(name, 3)
        if act == 'raise:Chained':
            try:
                {}['missing']
            except KeyError as low:
                raise ChainedError(name) from low
        if act == 'raise:Context':
            try:
                {}['missing']
            except KeyError:
                raise ChainedError(name)
        if act == 'raise:SystemExit':
            sys.exit(3)
        if act == 'raise:Base':
            raise PlannedBase(name)
        if act == 'exit':
            os._exit(3)
        if act == 'exit0':
            os._exit(0)      # the process ends "successfully" without ever delivering a result
        if act == 'kill':
            os.kill(os.getpid(), signal.SIGKILL)
            time.sleep(60)
        raise RuntimeError(f'vlab: unknown action {act}')
    value = combine(tname, name, getattr(task, 'p', None), dep_vals, ctx_digest(ctx), gen)
    out = shape_value(value, ent.get('shape'), task)
    if ent.get('ctxmut') and LAB_CTX is not None and os.getpid() == LAB_CTX_PID:
        # a task of the serial backend runs in the caller's memory: it rebinds a key of the Lab's context
        k, v = ent['ctxmut']
        LAB_CTX[k] = v
        emit('ctxmut', name=name, key=k, value=v)
    hook = ent.get('prereturn')
    if hook:
        from . import inject
        inject.prereturn(hook, name)
    emit('end', name=name, gen=gen, status='ok')
    if ent.get('linger'):
        # the task returns, its process does not exit yet (a non-daemon thread, an executor that is not shut down):
        # the thread stays until it has seen another task start after this one ended, or every task has started,
        # or a generous timeout passes - and reports which
        import threading
        threading.Thread(target=_linger, args=(name, gen, ent['linger'], time.monotonic_ns()), daemon=False).start()
    return out


def _linger(name, gen, cfg, t_end):
    from .events import read_events
    ctl = os.environ['VLAB_CTL']
    deadline = time.monotonic() + cfg.get('timeout', 20)
    saw = None
    while time.monotonic() < deadline and saw is None:
        starts = [e for e in read_events(ctl) if e['k'] == 'start' and e.get('gen') == gen]
        if any(e['name'] != name and e['t'] > t_end for e in starts):
            saw = 'later-start'
        elif len({e['name'] for e in starts}) >= cfg['total']:
            saw = 'all-started'
        else:
            time.sleep(0.01)
    emit('linger-end', name=name, gen=gen, saw=saw, waited_s=round((time.monotonic_ns() - t_end) / 1e9, 2))
