"""Same-named task and enum types in another module (C07/C09/C15)."""
from enum import Enum
from typing import Any

import labtech

from .tasks_core import _val_run


class Color(Enum):
    RED = 1
    GREEN = 2


@labtech.task
class VA:
    p: Any = None
    q: Any = None

    def run(self):
        return _val_run(self)


@labtech.task
class NA:
    name: str
    one: Any = None
    many: Any = ()
    named: Any = None
    p: Any = None

    def run(self):
        from .body import run_body
        return run_body(self)
