"""Per-shard report object; merged by the supervisor (vlab.check)."""
import hashlib
import json
import os
import time
from collections import Counter


def h(obj):
    return hashlib.sha1(json.dumps(obj, sort_keys=True, default=repr).encode()).hexdigest()[:16]


class Report:
    def __init__(self, prop, tier, seed, shard, nshards, budget_s):
        self.prop = prop
        self.tier = tier
        self.seed = seed
        self.shard = shard
        self.nshards = nshards
        self.t0 = time.monotonic()
        self.deadline = self.t0 + budget_s
        self.evaluations = 0
        self.cases = {}            # hash -> nontrivial
        self.violations = []
        self.inconclusives = []
        self.counters = Counter()
        self.sets = {}
        self.samples = []
        self.foreign = Counter()
        self.required = {}
        self.exhaustive = None

    # -- recording
    def checkpoint(self, force=False):
        """Periodically persist what was observed so far: an interpreter crash (e.g. a segfault of CPython
        itself under the failpoint injector) then costs the scenario, not the whole shard's observations."""
        path = getattr(self, 'checkpoint_path', None)
        now = time.monotonic()
        if not path or (not force and now - getattr(self, '_last_ckpt', 0) < 3.0):
            return
        self._last_ckpt = now
        try:
            tmp = path + '.tmp'
            out = self.dump()
            out['checkpoint'] = True
            with open(tmp, 'w') as f:
                json.dump(out, f, default=repr)
            os.rename(tmp, path)
        except Exception:
            pass

    def case(self, key, nontrivial=True):
        self.checkpoint()
        self.evaluations += 1
        k = key if isinstance(key, str) and len(key) == 16 else h(key)
        self.cases[k] = self.cases.get(k, False) or bool(nontrivial)

    def violation(self, key, msg, witness=None):
        """key: mechanism signature (matched against known_findings.json)."""
        self.violations.append({'key': key, 'msg': msg, 'witness': witness})

    def inconclusive(self, msg, witness=None):
        self.inconclusives.append({'msg': msg, 'witness': witness})

    def count(self, name, n=1):
        self.counters[name] += n

    def seen(self, setname, item):
        self.sets.setdefault(setname, set()).add(item if isinstance(item, (str, int)) else h(item))

    def sample(self, obj, limit=3):
        if len(self.samples) < limit:
            self.samples.append(obj)

    def require(self, counter, minimum):
        self.required[counter] = minimum

    def time_left(self):
        return self.deadline - time.monotonic()

    def expired(self):
        return time.monotonic() > self.deadline

    def dump(self):
        return {
            'prop': self.prop, 'shard': self.shard, 'evaluations': self.evaluations,
            'cases': self.cases, 'violations': self.violations[:50],
            'n_violations': len(self.violations),
            'inconclusives': self.inconclusives[:20], 'n_inconclusive': len(self.inconclusives),
            'counters': dict(self.counters),
            'sets': {k: sorted(v, key=str)[:5000] for k, v in self.sets.items()},
            'samples': self.samples, 'foreign': dict(self.foreign), 'required': self.required,
            'wall_s': time.monotonic() - self.t0, 'exhaustive': self.exhaustive,
        }
