"""Pass-through spy around a real labtech Runner (observation channel 2) and
the schedule-controlling simulated Runner (channel 3).  Both are installed
through the public `Lab(runner_backend=<RunnerBackend>)` extension point."""
import os
import random
import time

from labtech.exceptions import TaskDiedError
from labtech.runners.base import run_or_load_task
from labtech.types import Runner, RunnerBackend

from . import body


class HarnessAbort(BaseException):
    """Raised by monitors to stop a run that is logically hung; labtech's
    interrupt handling does not catch it."""


class Trace:
    def __init__(self):
        self.calls = []     # dicts: seq, op, t, ...
        self.seq = 0
        self.runner = None
        self.close_probe = None
        self.metas = {}          # name -> ResultMeta yielded by the runner for that task

    def rec(self, op, **kw):
        self.seq += 1
        r = {'seq': self.seq, 'op': op, 't': time.monotonic_ns()}
        r.update(kw)
        self.calls.append(r)
        return r


class Hooks:
    """Override any of these in a controller."""

    def on_build(self, spy): pass
    def on_submit(self, spy, task, task_name, use_cache): pass
    def before_wait(self, spy): pass
    def on_yield(self, spy, task, res): pass
    def after_wait(self, spy, n): pass
    def on_remove(self, spy, tasks): pass
    def on_cancel(self, spy): pass
    def on_stop(self, spy): pass
    def on_close(self, spy): pass


class SpyRunner(Runner):

    def __init__(self, inner, trace, hooks, max_workers):
        self.inner = inner
        self.trace = trace
        self.hooks = hooks
        self.max_workers = max_workers
        self.submitted = []        # (task, use_cache) in submit order
        self.yielded = []          # tasks
        self.inflight = []         # tasks submitted, not yielded (submit order)
        self.probe_tasks = None    # set by the engine: tasks to probe at close()
        self.ok_names = set()
        self.empty_waits = 0
        self.interrupted = False
        trace.runner = self

    def submit_task(self, task, task_name, use_cache):
        r = self.trace.rec('submit', name=task.name, use_cache=use_cache, task_name=task_name)
        if not use_cache:
            gone = []
            for dep in body.walk_deps(task):
                if dep.name in self.ok_names and dep.name not in gone:
                    try:
                        self.inner.get_result(dep)
                    except KeyError:
                        gone.append(dep.name)
            if gone:
                r['dep_unavailable'] = gone
        self.submitted.append((task, use_cache))
        self.inflight.append(task)
        self.hooks.on_submit(self, task, task_name, use_cache)
        return self.inner.submit_task(task, task_name, use_cache)

    def wait(self, *, timeout_seconds):
        self.hooks.before_wait(self)
        self.trace.rec('wait', inflight=[t.name for t in self.inflight])
        if not self.inflight and not self.interrupted:
            self.empty_waits += 1
            if self.empty_waits >= 3:
                raise HarnessAbort('spin: coordinator keeps calling wait() with nothing in flight '
                                   f'(submitted {len(self.submitted)}, yielded {len(self.yielded)})')
        else:
            self.empty_waits = 0
        n = 0
        for task, res in self.inner.wait(timeout_seconds=timeout_seconds):
            n += 1
            ok = not isinstance(res, BaseException)
            self.trace.rec('yield', name=task.name, ok=ok,
                           res=(None if ok else type(res).__name__))
            self.yielded.append(task)
            if ok:
                self.ok_names.add(task.name)
                self.trace.metas[task.name] = res
            for i, t in enumerate(self.inflight):
                if t is task or t == task:
                    del self.inflight[i]
                    break
            self.hooks.on_yield(self, task, res)
            yield task, res
        self.trace.rec('wait-end', n=n)
        self.hooks.after_wait(self, n)

    def cancel(self):
        self.trace.rec('cancel')
        self.interrupted = True
        self.hooks.on_cancel(self)
        return self.inner.cancel()

    def stop(self):
        self.trace.rec('stop')
        self.interrupted = True
        self.hooks.on_stop(self)
        return self.inner.stop()

    def close(self):
        left = []
        if self.probe_tasks is not None:
            for t in self.probe_tasks:
                try:
                    self.inner.get_result(t)
                except KeyError:
                    pass
                else:
                    left.append(t.name)
        self.trace.close_probe = left
        self.trace.rec('close', left=left)
        self.hooks.on_close(self)
        return self.inner.close()

    def pending_task_count(self):
        return self.inner.pending_task_count()

    def get_result(self, task):
        try:
            out = self.inner.get_result(task)
        except BaseException as ex:
            self.trace.rec('get_result', name=task.name, raised=type(ex).__name__)
            raise
        self.trace.rec('get_result', name=task.name)
        return out

    def remove_results(self, tasks):
        tasks = list(tasks)
        r = self.trace.rec('remove', names=[t.name for t in tasks])
        self.hooks.on_remove(self, tasks)
        out = self.inner.remove_results(tasks)
        left = []
        for t in tasks:
            try:
                self.inner.get_result(t)
            except KeyError:
                pass
            else:
                left.append(t.name)
        if left:
            r['left_after'] = left
        return out

    def get_task_infos(self):
        return self.inner.get_task_infos()


class SpyBackend(RunnerBackend):

    def __init__(self, inner_backend, trace=None, hooks=None):
        self.inner_backend = inner_backend
        self.trace = trace or Trace()
        self.hooks = hooks or Hooks()

    def build_runner(self, *, context, storage, max_workers):
        inner = self.inner_backend.build_runner(context=context, storage=storage, max_workers=max_workers)
        spy = SpyRunner(inner, self.trace, self.hooks, max_workers)
        self.hooks.on_build(spy)
        return spy


class SimRunner(Runner):
    """Keeps submissions in flight; at each wait() a seeded RNG picks a
    non-empty subset of the first `max_workers` submissions as this round's
    completion batch, *executes them now* (the latest legal moment, so a
    result released too early shows up as a failed read) and yields them in a
    seeded order.  Planned deaths yield TaskDiedError without executing."""

    def __init__(self, *, context, storage, max_workers, rng, deaths=(), batch_bias=0.5):
        self.context = context
        self.storage = storage
        self.W = os.cpu_count() if max_workers is None else max_workers
        self.rng = rng
        self.deaths = set(deaths)
        self.queue = []            # submissions in submit order
        self.batch = []            # popped for this round, not yet yielded
        self.results_map = {}
        self.batch_bias = batch_bias
        self.batches = []          # record of batches (names)

    def submit_task(self, task, task_name, use_cache):
        self.queue.append((task, task_name, use_cache))

    def wait(self, *, timeout_seconds):
        if not self.queue:
            return
        window = self.queue[:self.W]
        k = 1
        while k < len(window) and self.rng.random() < self.batch_bias:
            k += 1
        batch = self.rng.sample(window, k)
        for sub in batch:
            self.queue.remove(sub)
        self.batch = list(batch)
        self.batches.append([s[0].name for s in batch])
        while self.batch:
            task, task_name, use_cache = self.batch.pop(0)
            if task.name in self.deaths and not use_cache:
                yield task, TaskDiedError()
                continue
            try:
                for dep in body.walk_deps(task):
                    dep._set_results_map(self.results_map)
                res = run_or_load_task(task=task, task_name=task_name, use_cache=use_cache,
                                       filtered_context=task.filter_context(self.context),
                                       storage=self.storage)
            except KeyboardInterrupt:
                raise
            except BaseException as ex:
                yield task, ex
            else:
                self.results_map[task] = res
                yield task, res.meta

    def cancel(self):
        del self.queue[self.W:]

    def stop(self):
        self.queue.clear()
        self.batch.clear()

    def close(self):
        pass

    def pending_task_count(self):
        return len(self.queue) + len(self.batch)

    def get_result(self, task):
        return self.results_map[task]

    def remove_results(self, tasks):
        for t in tasks:
            self.results_map.pop(t, None)

    def get_task_infos(self):
        return []


class SimBackend(RunnerBackend):

    def __init__(self, seed, deaths=(), batch_bias=0.5):
        self.rng = random.Random(seed)
        self.deaths = deaths
        self.batch_bias = batch_bias
        self.runner = None

    def build_runner(self, *, context, storage, max_workers):
        self.runner = SimRunner(context=context, storage=storage, max_workers=max_workers,
                                rng=self.rng, deaths=self.deaths, batch_bias=self.batch_bias)
        return self.runner
