"""Launch ledger (channel 5) and gate controller (channel 4)."""
import multiprocessing.process
import os
import signal
import time

from .events import emit, read_events
from .spy import HarnessAbort, Hooks


class Ledger:
    """Synchronous record, in the harness process, of every non-manager
    multiprocessing.Process launched.  The worker's task name is read from the
    process's kwargs *before* delegating to the real start() (which deletes
    _target/_kwargs)."""

    def __init__(self):
        self.pid = os.getpid()
        self.entries = []      # dicts: t, name, proc, pidfd
        self._orig = None
        self.on_launch = None

    def install(self):
        ledger = self
        orig = multiprocessing.process.BaseProcess.start
        self._orig = orig

        def start(proc):
            target = getattr(proc, '_target', None)
            is_mgr = getattr(target, '__name__', '') == '_run_server'
            name = None
            try:
                thunk = proc._kwargs.get('thunk')
                name = thunk.keywords['task'].name
                use_cache = thunk.keywords.get('use_cache')
            except Exception:
                use_cache = None
            try:
                orig(proc)
            finally:
                # A forked child never returns from start() (Popen._launch ends in os._exit).  If an exception
                # escapes in the child anyway (a real SIGINT in the few instructions between fork() and the
                # child's try block), it must not unwind into a clone of the harness.
                if os.getpid() != ledger.pid:
                    os._exit(98)
            if os.getpid() == ledger.pid and not is_mgr:
                try:
                    pidfd = os.pidfd_open(proc.pid)
                except OSError:
                    pidfd = None
                ent = {'t': time.monotonic_ns(), 'name': name, 'proc': proc, 'pidfd': pidfd,
                       'pid': proc.pid, 'use_cache': use_cache}
                ledger.entries.append(ent)
                emit('launch', name=name, child=proc.pid, use_cache=use_cache)
                if ledger.on_launch is not None:
                    ledger.on_launch(ent)
        multiprocessing.process.BaseProcess.start = start

    def uninstall(self):
        if self._orig is not None:
            multiprocessing.process.BaseProcess.start = self._orig
            self._orig = None
        self.close_fds()

    def close_fds(self):
        for e in self.entries:
            if e['pidfd'] is not None:
                try:
                    os.close(e['pidfd'])
                except OSError:
                    pass
                e['pidfd'] = None

    def kill(self, ent, sig=signal.SIGKILL):
        if ent['pidfd'] is None:
            return False
        try:
            signal.pidfd_send_signal(ent['pidfd'], sig)
            return True
        except (ProcessLookupError, OSError):
            return False

    def names(self):
        return [e['name'] for e in self.entries]

    def alive(self):
        out = []
        for e in self.entries:
            try:
                if e['proc'].is_alive():
                    out.append(e)
            except (ValueError, AssertionError):
                pass
        return out


class GateController(Hooks):
    """Drives a real fork/spawn run step by step: every executing task blocks
    inside run() until released; at each quiescent rest point the controller
    records the rest state and releases a seeded non-empty subset."""

    def __init__(self, *, ctl, rng, W, ledger, acts=None, start_timeout=20.0, release_bias=0.35,
                 on_rest=None):
        self.ctl = ctl
        self.rng = rng
        self.W = W
        self.ledger = ledger
        self.acts = acts or {}
        self.released = set()
        self.rests = []
        self.start_timeout = start_timeout
        self.release_bias = release_bias
        self.on_rest = on_rest
        self.use_cache = {}
        self.gen = 1
        self._stall_n = 0
        self.stall_limit = 30
        os.makedirs(os.path.join(ctl, 'release'), exist_ok=True)

    def on_submit(self, spy, task, task_name, use_cache):
        self.use_cache[task.name] = use_cache

    def _started(self):
        st, en = set(), set()
        for e in read_events(self.ctl):
            if e.get('gen') != self.gen:
                continue
            if e['k'] == 'start':
                st.add(e['name'])
            elif e['k'] == 'end':
                en.add(e['name'])
        return st, en

    def release(self, names):
        for n in names:
            path = os.path.join(self.ctl, 'release', n)
            tmp = path + '.tmp'
            with open(tmp, 'w') as f:
                f.write(self.acts.get(n, ''))
            os.rename(tmp, path)
            self.released.add(n)

    def release_all(self, names):
        self.release([n for n in names if n not in self.released])

    def before_wait(self, spy):
        inflight = [t.name for t in spy.inflight]
        if not inflight:
            return
        if any((n in self.released) or self.use_cache.get(n) for n in inflight[:self.W]):
            # something will complete on its own: not a rest point
            sig = (tuple(inflight), len(spy.yielded))
            if sig == getattr(self, '_stall_sig', None):
                self._stall_n += 1
                if self._stall_n > self.stall_limit:
                    st, en = self._started()
                    raise HarnessAbort(f'gate: no progress over {self._stall_n} waits; inflight={inflight} '
                                       f'released={sorted(self.released)} started={sorted(st)} ended={sorted(en)} '
                                       f'launched={[e["name"] for e in self.ledger.entries]} '
                                       f'alive={[e["name"] for e in self.ledger.alive()]}')
            else:
                self._stall_sig = sig
                self._stall_n = 0
            return
        expected = inflight[:self.W]
        deadline = time.monotonic() + self.start_timeout
        while True:
            started, ended = self._started()
            if all(n in started for n in expected):
                break
            if time.monotonic() > deadline:
                break
            time.sleep(0.002)
        launched = [e['name'] for e in self.ledger.entries]
        rest = {
            'idx': len(self.rests),
            'inflight': inflight,
            'expected': expected,
            'started': sorted(n for n in inflight if n in started and n not in ended),
            'launched_inflight': sorted(n for n in inflight if n in launched),
            'ledger_ok': all(n is not None for n in launched),
            'timeout': not all(n in started for n in expected),
            'submitted': [t.name for t, _ in spy.submitted],
            'yielded': [t.name for t in spy.yielded],
        }
        self.rests.append(rest)
        spy.trace.rec('rest', **rest)
        if self.on_rest is not None:
            self.on_rest(self, spy, rest)
        running = [n for n in inflight if n in started]
        if not running:
            raise HarnessAbort('gate: nothing started at a rest point')
        k = 1
        while k < len(running) and self.rng.random() < self.release_bias:
            k += 1
        self.release(self.rng.sample(running, k))
