"""Scenario generation shared by the DAG-engine properties (C01-C05, C17)."""
import random

from .gen import closure, dependents_of, flat_deps, gen_spec, spec_signature
from .model import cacheable


def scenario_rng(seed, prop, j):
    return random.Random(f'{seed}:{prop}:{j}')


def gen_dag_scenario(rng, *, backend, shape=None, nmax=10, types=None, gated=None,
                     precache=True, fresh=True, workers=(1, 2, 3, None), failing=False,
                     fail_kinds=('raise:ValueError',), fail_requested=False, depth=3):
    kw = {}
    if types is not None:
        kw['types'] = types
    spec = gen_spec(rng, shape=shape, nmax=nmax, depth=depth, **kw)
    scn = {'spec': spec, 'backend': backend, 'sched_seed': rng.randrange(1 << 30),
           'build_seed': rng.randrange(1 << 30)}
    scn['max_workers'] = rng.choice(workers)
    if backend in ('fork', 'spawn') and scn['max_workers'] is None and len(spec['tasks']) < 12:
        # the default (cpu count) is only interesting with enough tasks
        scn['max_workers'] = rng.choice([w for w in workers if w is not None] or [2])
    scn['fresh_prob'] = rng.choice([0.0, 0.3, 1.0]) if fresh else 0.0
    if precache and rng.random() < 0.6:
        names = list(spec['tasks'])
        k = rng.randrange(1, len(names) + 1)
        scn['pre'] = rng.sample(names, k) if rng.random() < 0.7 else names[:k]
        scn['pre_backend'] = rng.choice(['serial', 'serial', 'fork']) if backend != 'sim' else 'serial'
    scn['bust'] = bool(scn.get('pre')) and rng.random() < 0.15
    if backend in ('fork', 'spawn'):
        scn['gated'] = (rng.random() < 0.7) if gated is None else gated
        if not scn['gated']:
            scn['free_sleep'] = [0.0, 0.005, 0.02, 0.04]
    scn['pickled_copies'] = rng.random() < 0.2
    scn['batch_bias'] = rng.choice([0.2, 0.5, 0.8])
    scn['release_bias'] = rng.choice([0.2, 0.4, 0.7])
    if failing:
        names = list(spec['tasks'])
        dependents = dependents_of(spec)
        cand = names if fail_requested else [n for n in names if n not in spec['requested']]
        k = rng.randrange(0, min(3, len(cand)) + 1) if cand else 0
        scn['failing'] = {n: rng.choice(fail_kinds) for n in rng.sample(cand, k)}
    return scn


def scn_key(scn):
    """Canonical identity of a scenario for the distinct count."""
    return [spec_signature(scn['spec']), scn['backend'], scn.get('max_workers'), sorted(scn.get('pre') or []),
            scn.get('bust'), scn.get('fresh_prob'), scn.get('sched_seed'), sorted((scn.get('failing') or {}).items()),
            scn.get('gated'), scn.get('pickled_copies')]


def scn_summary(scn, out=None):
    s = {'shape': scn['spec'].get('shape'),
         'tasks': {n: [t['type'], flat_deps(scn['spec'], n)] for n, t in scn['spec']['tasks'].items()},
         'requested': scn.get('requested') or scn['spec']['requested'],
         'backend': scn['backend'], 'max_workers': scn.get('max_workers'), 'pre': scn.get('pre'),
         'bust': scn.get('bust'), 'fresh_prob': scn.get('fresh_prob'), 'gated': scn.get('gated'),
         'failing': scn.get('failing')}
    if out is not None:
        if getattr(out, 'sim_batches', None):
            s['completion_batches'] = out.sim_batches
        if getattr(out, 'rests', None):
            s['rest_points'] = [{'running': r['started'], 'inflight': r['inflight']} for r in out.rests[:6]]
        s['yield_order'] = [c['name'] for c in out.trace.calls if c['op'] == 'yield']
    return s


def is_nontrivial(scn, out):
    """>= 1 shared dependency or nested placement, and >= 2 completions."""
    spec = scn['spec']
    deps = sum(len(flat_deps(spec, n)) for n in spec['tasks'])
    ny = sum(1 for c in out.trace.calls if c['op'] == 'yield')
    return deps >= 1 and ny >= 2


def pick_backend(rng, tier_weights):
    names = [b for b, _ in tier_weights]
    return rng.choices(names, [w for _, w in tier_weights])[0]
