"""Development-only mutation driver (not registered in MANIFEST).

`python -m vlab.mutate [--only ID,...] [--props C01,...] [--tier quick]` copies
/repo/labtech to a scratch directory outside /repo and /verif, applies one
textual mutation, runs the listed checks with VLAB_REPO pointing at the copy
and reports which checks exit 1 with a VIOLATION line.  The scratch copy is
removed immediately afterwards."""
import argparse
import json
import os
import shutil
import subprocess
import sys
import tempfile

HERE = os.path.dirname(os.path.dirname(os.path.abspath(__file__)))

# id: (file, old, new, [properties expected to catch it])
MUTATIONS = {
    # ---- C01
    'c01-capture-after-release': ('labtech/lab.py',
        "                    if task in tasks:\n                        task_results[task] = runner.get_result(task).value\n                    tasks_with_removable_results = state.complete_task(task, result_meta=res)\n",
        "                    tasks_with_removable_results = state.complete_task(task, result_meta=res)\n                    runner.remove_results(tasks_with_removable_results)\n                    if task in tasks:\n                        task_results[task] = runner.get_result(task).value\n",
        ['C01', 'C17']),
    'c01-results-in-completion-order': ('labtech/lab.py',
        "        return {task: results[task] for task in tasks if task in results}\n",
        "        return {task: results[task] for task in results if task in tasks}\n", ['C01']),
    'c01-identity-membership': ('labtech/lab.py',
        "                    if task in tasks:\n", "                    if any(task is t for t in tasks):\n", ['C01', 'C10']),
    # ---- C02
    'c02-ready-ignores-multi-deps': ('labtech/lab.py',
        "            if len(self.task_to_pending_dependencies.get(task, set())) > 0:\n",
        "            if len(self.task_to_pending_dependencies.get(task, set())) == 1:\n", ['C02']),
    'c02-no-descend-dict-values': ('labtech/tasks.py',
        "            for item in param_value.values()\n            for task in find_tasks_in_param(item, searched_coll_ids)\n",
        "            for item in param_value.values() if is_task(item)\n            for task in find_tasks_in_param(item, searched_coll_ids)\n",
        ['C02', 'C03']),
    'c02-unblock-at-start': ('labtech/lab.py',
        "        self.pending_tasks.remove(task)\n        self.type_to_active_tasks[type(task)].add(task)\n",
        "        self.pending_tasks.remove(task)\n        self.type_to_active_tasks[type(task)].add(task)\n        for dependent in self.task_to_pending_dependents[task]:\n            self.task_to_pending_dependencies[dependent].discard(task)\n",
        ['C02']),
    'c02-result-none-when-missing': ('labtech/tasks.py',
        "        raise TaskError(f\"Result for task '{self}' is not available in memory\")\n",
        "        return None\n", ['C02']),
    # ---- C03
    'c03-orderedset-no-dedup': ('labtech/lab.py',
        "            if id(task) in self.processed_task_ids:\n                continue\n",
        "            if False:\n                continue\n", ['C03']),
    'c03-always-expand-deps': ('labtech/lab.py',
        "            if not self.coordinator.use_cache(task):\n                dependency_tasks",
        "            if True:\n                dependency_tasks", ['C03']),
    'c03-submit-never-use-cache': ('labtech/lab.py',
        "                                use_cache=self.use_cache(task),\n",
        "                                use_cache=False,\n", ['C03', 'C06']),
    'c03-meta-first-instance-only': ('labtech/lab.py',
        "            for task_instance in self.task_to_instances[task]:\n                task_instance._set_result_meta(result_meta)\n",
        "            for task_instance in self.task_to_instances[task][:1]:\n                task_instance._set_result_meta(result_meta)\n",
        ['C03']),
    # ---- C04
    'c04-one-extra-worker': ('labtech/runners/process.py',
        "        start_count = max(0, self.max_workers - len(self._running_id_to_future_and_process))\n",
        "        start_count = max(0, self.max_workers + 1 - len(self._running_id_to_future_and_process))\n", ['C04']),
    'c04-type-limit-off-by-one': ('labtech/lab.py',
        "(task_type_counts[type(task)] >= task._lt.max_parallel)", "(task_type_counts[type(task)] > task._lt.max_parallel)",
        ['C04']),
    'c04-count-only-new-ready': ('labtech/lab.py',
        "        task_type_counts = Counter({\n            task_type: len(active_tasks)\n            for task_type, active_tasks in self.type_to_active_tasks.items()\n        })\n",
        "        task_type_counts = Counter()\n", ['C04']),
    # ---- C05
    'c05-start-one-process-per-call': ('labtech/runners/process.py',
        "        futures_to_start = list(self._pending_future_to_thunk.keys())[:start_count]\n",
        "        futures_to_start = list(self._pending_future_to_thunk.keys())[:min(start_count, 1)]\n", ['C05']),
    'c05-wait-does-not-top-up': ('labtech/runners/process.py',
        "        # Having consumed completed results, start new processes\n        self._start_processes()\n",
        "        # Having consumed completed results, start new processes\n", ['C05', 'C11']),
    'c05-ready-returns-one': ('labtech/lab.py',
        "            task_type_counts[type(task)] += 1\n            ready_tasks.append(task)\n",
        "            task_type_counts[type(task)] += 1\n            ready_tasks.append(task)\n            break\n", ['C05']),
    'c05-dead-worker-keeps-slot': ('labtech/runners/process.py',
        "            future.set_exception(TaskDiedError())\n            del self._running_id_to_future_and_process[future.id]\n",
        "            future.set_exception(TaskDiedError())\n", ['C05']),
    # ---- C10
    'c10-always-raise': ('labtech/lab.py',
        "        if self.lab.continue_on_failure:\n            logger.error(f\"{message} Skipping task. Failure cause: {ex}\")\n        else:\n",
        "        if False:\n            pass\n        else:\n", ['C10']),
    'c10-no-cause': ('labtech/lab.py', "            raise lab_error from ex\n", "            raise lab_error\n", ['C10']),
    'c10-failure-does-not-unblock': ('labtech/lab.py',
        "                    tasks_with_removable_results = state.complete_task(task, result_meta=None)\n                    self.handle_failure",
        "                    tasks_with_removable_results = OrderedSet()\n                    self.handle_failure", ['C10', 'C11']),
    'c10-failed-result-kept-stale': ('labtech/runners/serial.py',
        "        except BaseException as ex:\n            yield (task, ex)\n",
        "        except BaseException as ex:\n            self.results_map[task] = TaskResult(value=None, meta=ResultMeta(start=None, duration=None))\n            yield (task, ex)\n",
        ['C10', 'C02']),
    # ---- C17
    'c17-remove-noop': ('labtech/runners/process.py',
        "            logger.debug(f\"Removing result from in-memory cache for task: '{task}'\")\n            del self.results_map[task]\n",
        "            logger.debug(f\"Removing result from in-memory cache for task: '{task}'\")\n", ['C17']),
    'c17-release-on-any-dependent': ('labtech/lab.py',
        "            if len(self.task_to_pending_dependents[dependency]) == 0:\n",
        "            if True:\n", ['C17', 'C02']),
    'c17-revert-continue': ('labtech/runners/serial.py',
        "            if task not in self.results_map:\n                continue\n",
        "            if task not in self.results_map:\n                return\n", ['C17']),
    'c17-never-release-self': ('labtech/lab.py',
        "        if len(self.task_to_pending_dependents[task]) == 0:\n            tasks_with_removable_results.add(task)\n",
        "", ['C17']),
    # ---- C11
    'c11-no-dead-process-detection': ('labtech/runners/process.py',
        "            future.set_exception(TaskDiedError())\n            del self._running_id_to_future_and_process[future.id]\n",
        "            pass\n", ['C11']),
    'c11-complete-task-early-return-on-failure': ('labtech/lab.py',
        "        self.type_to_active_tasks[type(task)].remove(task)\n        for dependent in self.task_to_pending_dependents[task]:\n",
        "        self.type_to_active_tasks[type(task)].remove(task)\n        if result_meta is None:\n            return OrderedSet()\n        for dependent in self.task_to_pending_dependents[task]:\n", ['C11', 'C10']),
    'c11-died-error-only-first': ('labtech/runners/process.py',
        "        for future in dead_process_futures:\n            if future.done:\n                continue\n",
        "        for future in dead_process_futures[:1]:\n            if future.done:\n                continue\n", ['C11']),
    # ---- C12
    'c12-cleanup-only-exception': ('labtech/cache.py',
        "        except BaseException:\n            # Do not leave", "        except ValueError:\n            # Do not leave", ['C12', 'C14']),
    'c12-cleanup-removed': ('labtech/cache.py',
        "            storage.delete(task.cache_key)\n            raise\n", "            raise\n", ['C12']),
    'c12-metadata-after-data-no-cleanup': ('labtech/cache.py',
        "            self.save_result(storage, task, task_result.value)\n        except BaseException:",
        "            self.save_result(storage, task, task_result.value)\n        except pickle.PicklingError:", ['C12']),
    # ---- C13
    'c13-data-into-other-dir': ('labtech/cache.py',
        "        data_file = storage.file_handle(task.cache_key, self.RESULT_FILENAME, mode='wb')\n",
        "        data_file = storage.file_handle(task.cache_key if len(pickle.dumps(result)) < 100000 else 'pickle__NA__overflow', self.RESULT_FILENAME, mode='wb')\n", ['C13', 'C06']),
    # ---- C14
    'c14-workers-do-not-ignore-sigint': ('labtech/runners/process.py',
        "        signal.signal(signal.SIGINT, signal.SIG_IGN)\n", "        pass\n", ['C14']),
    'c14-first-interrupt-stops': ('labtech/lab.py',
        "                        runner.cancel()\n", "                        runner.stop()\n", ['C14']),
    'c14-no-cancel': ('labtech/lab.py',
        "                        runner.cancel()\n", "                        pass\n", ['C14']),
    'c14-serial-swallows-interrupt': ('labtech/runners/serial.py',
        "        except KeyboardInterrupt:\n            raise\n", "", ['C14']),
    'c14-revert-prune': ('labtech/runners/process.py',
        "            task = self.future_to_task.pop(future)\n", "            task = self.future_to_task[future]\n", ['C14', 'C11']),
    'c14-revert-stop-cancel': ('labtech/runners/process.py',
        "        self.executor.cancel()\n        self.executor.stop()\n", "        self.executor.stop()\n", ['C14']),
    'c14-apply-forget-before-set': ('labtech/runners/process.py',
        "                self._running_id_to_future_and_process.pop(future_id, None)\n            self._consumed_results.popleft()\n",
        "            self._consumed_results.popleft()\n",
        ['C14', 'C11']),
    'c14-apply-take-before-set': ('labtech/runners/process.py',
        "            future_id, result_or_ex = self._consumed_results[0]\n",
        "            future_id, result_or_ex = self._consumed_results.popleft()\n            self._consumed_results.appendleft((-1, None))\n",
        ['C14']),
    'c14-untracked-result-keyerror': ('labtech/runners/process.py',
        "            future_and_process = self._running_id_to_future_and_process.get(future_id)\n            if future_and_process is not None:\n",
        "            future_and_process = self._running_id_to_future_and_process[future_id]\n            if future_and_process is not None:\n",
        ['C14']),
    # ---- C09 (fix 24)
    'c09-revert-nested-class-import': ('labtech/serialization.py',
        "                if ex.name != cls_module or '.' not in cls_module:\n                    raise\n",
        "                raise\n", ['C09']),
    # ---- C19
    'c19-revert-flush-clear': ('labtech/utils.py', "            self.bufs = []\n", "", ['C19']),
    'c19-revert-second-drain': ('labtech/runners/process.py',
        "        # records of the tasks that have just completed.\n        self._consume_log_queue()\n", "        # records of the tasks that have just completed.\n", ['C19']),
    'c19-revert-exit-flush': ('labtech/runners/process.py',
        "            sys.stdout.flush()\n            sys.stderr.flush()\n", "", ['C19']),
    'c19-drop-whitespace-lines-too-eager': ('labtech/utils.py',
        "        if not self.whitespace_only_re.fullmatch(buf):\n", "        if not self.whitespace_only_re.fullmatch(buf) and not buf.startswith('TOK-t1'):\n", ['C19']),
    # ---- C18
    'c18-drop-parent-check': ('labtech/storage.py',
        "    if key_path.parent != storage_path.resolve():\n", "    if False:\n", ['C18']),
    'c18-drop-filename-check': ('labtech/storage.py',
        "        if file_path.parent != key_path:\n            raise StorageError(", "        if False:\n            raise StorageError(", ['C18']),
    'c18-delete-unresolved-rmtree': ('labtech/storage.py',
        "        if key_path.exists():\n            shutil.rmtree(key_path)\n",
        "        if key_path.exists():\n            shutil.rmtree(key_path, ignore_errors=True)\n            for extra in self._storage_path.glob(key + '*'):\n                if extra.is_dir() and not extra.is_symlink():\n                    shutil.rmtree(extra)\n", ['C18', 'C08']),
    # ---- C20
    'c20-depth-one-only': ('labtech/diagram.py',
        "                found_tasks += sub_tasks\n", "                pass\n", ['C20']),
    'c20-and-cardinality': ('labtech/diagram.py',
        "multi_cardinality=(old_info.multi_cardinality or info.multi_cardinality)", "multi_cardinality=(old_info.multi_cardinality and info.multi_cardinality)", ['C20']),
    'c20-rel-key-target-only': ('labtech/diagram.py',
        "        rels = self.task_type_to_rels[from_task_type]\n        if key not in rels:\n",
        "        rels = self.task_type_to_rels[from_task_type]\n        key = next((k for k in rels if k.to_task_type is to_task_type), key)\n        if key not in rels:\n", ['C20']),
    # ---- C06
    'c06-save-under-other-key': ('labtech/cache.py',
        "        data_file = storage.file_handle(task.cache_key, self.RESULT_FILENAME, mode='wb')\n",
        "        data_file = storage.file_handle(task.cache_key[:-1], self.RESULT_FILENAME, mode='wb')\n", ['C06', 'C08']),
    'c06-meta-duration-dropped': ('labtech/cache.py',
        "        if 'duration_seconds' in metadata:\n", "        if 'duration_secs' in metadata:\n", ['C06', 'C09']),
    'c06-meta-start-now': ('labtech/cache.py',
        "            start = datetime.fromisoformat(metadata['start_timestamp'])\n", "            start = datetime.now()\n", ['C06', 'C09']),
    'c06-meta-first-instance-only': ('labtech/lab.py',
        "            for task_instance in self.task_to_instances[task]:\n                task_instance._set_result_meta(result_meta)\n",
        "            for task_instance in self.task_to_instances[task][-1:]:\n                task_instance._set_result_meta(result_meta)\n", ['C06', 'C03']),
    # ---- C07
    'c07-class-without-module': ('labtech/serialization.py',
        "        return f'{cls.__module__}.{cls.__qualname__}'\n", "        return f'{cls.__qualname__}'\n", ['C07']),
    'c07-stringified-scalars': ('labtech/cache.py',
        "        serialized_str = json.dumps(self.serializer.serialize_task(task)).encode('utf-8')\n",
        "        serialized_str = json.dumps(self.serializer.serialize_task(task), default=str).replace('1.0', '1').encode('utf-8')\n", ['C07']),
    'c07-python-hash': ('labtech/cache.py',
        "        hashed = hashlib.sha1(serialized_str).hexdigest()\n", "        hashed = format(hash(serialized_str) & 0xffffffffffff, 'x')\n", ['C07']),
    'c07-module-in-key': ('labtech/cache.py',
        "        return f'{self.KEY_PREFIX}{task.__class__.__qualname__}__{hashed}'\n",
        "        return f'{self.KEY_PREFIX}{task.__class__.__module__}.{task.__class__.__qualname__}__{hashed}'\n", ['C07']),
    'c07-sort-keys': ('labtech/cache.py',
        "        serialized_str = json.dumps(self.serializer.serialize_task(task)).encode('utf-8')\n",
        "        serialized_str = json.dumps(self.serializer.serialize_task(task), sort_keys=True, skipkeys=True).encode('utf-8').lower()\n", ['C07']),
    # ---- C08
    'c08-uncache-by-prefix': ('labtech/lab.py',
        "                task._lt.cache.delete(self._storage, task)\n",
        "                for key in self._storage.find_keys():\n                    if key.startswith(task.cache_key.rsplit('__', 1)[0]):\n                        self._storage.delete(key)\n", ['C08']),
    'c08-bust-only-requested': ('labtech/lab.py',
        "        return (not self.bust_cache) and self.lab.is_cached(task)\n",
        "        return (not (self.bust_cache and getattr(self, '_top', None) is not None and task in self._top)) and self.lab.is_cached(task)\n", ['C08']),
    'c08-nullcache-persists': ('labtech/cache.py',
        "    def save(self, storage: Storage, task: Task[ResultT], result: TaskResult[ResultT]):\n        pass\n",
        "    def save(self, storage: Storage, task: Task[ResultT], result: TaskResult[ResultT]):\n        storage.file_handle('null', 'x', mode='w').close()\n", ['C08']),
    # ---- C09
    'c09-no-isinstance': ('labtech/cache.py',
        "        if not isinstance(task, task_type):\n            raise TaskNotFound\n", "", ['C09']),
    'c09-no-break': ('labtech/lab.py',
        "                    tasks.append(task)\n                    break\n", "                    tasks.append(task)\n", ['C09']),
    'c09-meta-not-set': ('labtech/serialization.py',
        "        task._set_result_meta(result_meta)\n        return task\n", "        return task\n", ['C09']),
    'c09-revert-recursion': ('labtech/serialization.py',
        "        elif isinstance(value, list):\n            return [self.deserialize_value(item) for item in value]\n", "", ['C09']),
    # ---- C15
    'c15-no-tuple-recursion': ('labtech/tasks.py',
        "        return tuple(immutable_param_value(f'{key}[{i}]', item) for i, item in enumerate(value))\n",
        "        return tuple(value)\n", ['C15']),
    'c15-getstate-ships-results': ('labtech/tasks.py',
        "        '_results_map': None,\n", "        '_results_map': self._results_map,\n        'context': self.context,\n", ['C15']),
    'c15-sets-accepted': ('labtech/tasks.py',
        "    if isinstance(value, list) or isinstance(value, tuple):\n        return tuple(immutable",
        "    if isinstance(value, list) or isinstance(value, tuple) or isinstance(value, (set, frozenset)):\n        return tuple(immutable", ['C15']),
    'c15-revert-post-init': ('labtech/tasks.py',
        "    if self._lt.orig_post_init is not None:\n        self._lt.orig_post_init(self)\n\n\ndef task(", "\n\ndef task(", ['C15']),
    # ---- C16
    'c16-revert-mp-context': ('labtech/runners/process.py',
        "            process = self.mp_context.Process(\n", "            process = multiprocessing.Process(\n", ['C16']),
    'c16-fork-unfiltered-context': ('labtech/runners/process.py',
        "            filtered_context=task.filter_context(runner_memory.context),\n", "            filtered_context=runner_memory.context,\n", ['C16']),
    'c16-context-into-metadata': ('labtech/cache.py',
        "            'duration_seconds': duration_seconds,\n        }\n", "            'duration_seconds': duration_seconds,\n            'context': repr(task.context),\n        }\n", ['C16']),
}


def run_one(mid, props, tier, seed):
    file, old, new, expect = MUTATIONS[mid]
    scratch = tempfile.mkdtemp(prefix='vlab-mut-')
    try:
        shutil.copytree('/repo/labtech', os.path.join(scratch, 'labtech'))
        path = os.path.join(scratch, file)
        src = open(path).read()
        if src.count(old) != 1:
            return {'id': mid, 'error': f'pattern occurs {src.count(old)} times'}
        open(path, 'w').write(src.replace(old, new))
        rc = subprocess.run([sys.executable, '-c', f'import sys; sys.path.insert(0, {scratch!r}); import labtech'],
                            capture_output=True)
        if rc.returncode != 0:
            return {'id': mid, 'error': 'does not import: ' + rc.stderr.decode()[-300:]}
        res = {}
        for p in (props or expect):
            env = dict(os.environ, VLAB_REPO=scratch, VERIF_SEED=str(seed))
            out = os.path.join(scratch, f'{p}.out')
            with open(out, 'wb') as f:
                r = subprocess.run([sys.executable, '-m', 'vlab.check', p, '--tier', tier, '--no-evidence'],
                                   cwd=HERE, env=env, stdout=f, stderr=subprocess.STDOUT)
            txt = open(out, errors='replace').read()
            keys = sorted({ln.split('key=')[1].split(' ::')[0] for ln in txt.splitlines() if ln.strip().startswith('key=')})
            res[p] = {'rc': r.returncode, 'caught': r.returncode == 1 and 'VIOLATION property=' in txt, 'keys': keys[:6]}
        return {'id': mid, 'expect': expect, 'results': res}
    finally:
        shutil.rmtree(scratch, ignore_errors=True)
        shutil.rmtree(os.path.join(HERE, 'replays'), ignore_errors=True)


def main():
    ap = argparse.ArgumentParser()
    ap.add_argument('--only')
    ap.add_argument('--props')
    ap.add_argument('--tier', default='quick')
    ap.add_argument('--seed', type=int, default=0)
    ap.add_argument('--prefix')
    args = ap.parse_args()
    ids = args.only.split(',') if args.only else [m for m in MUTATIONS if not args.prefix or m.startswith(args.prefix)]
    props = args.props.split(',') if args.props else None
    for mid in ids:
        r = run_one(mid, props, args.tier, args.seed)
        if 'error' in r:
            print(f'{mid}: ERROR {r["error"]}')
            continue
        parts = []
        for p, v in r['results'].items():
            parts.append(f"{p}:{'CAUGHT' if v['caught'] else 'missed(rc=%d)' % v['rc']} {v['keys']}")
        print(f'{mid}: ' + ' | '.join(parts))
        sys.stdout.flush()


if __name__ == '__main__':
    main()
