"""Cross-process append-only event log (observation channel 1).

One JSON line per event, written with a single os.write on an O_APPEND
descriptor (atomic for small records), stamped with CLOCK_MONOTONIC (shared by
all processes of the host), pid and native thread id.  The log lives in the
control directory named by $VLAB_CTL, which fork and spawn children inherit.
"""
import json
import os
import threading
import time

_fd = None
_fd_key = None


def ctl_dir():
    return os.environ['VLAB_CTL']


def _get_fd():
    global _fd, _fd_key
    path = os.path.join(ctl_dir(), 'events.jsonl')
    key = (path, os.getpid())
    if _fd is None or _fd_key != key:
        # re-open per process: a spawn child has no inherited descriptor and a
        # forked child may share one whose path changed between scenarios.
        _fd = os.open(path, os.O_WRONLY | os.O_APPEND | os.O_CREAT, 0o644)
        _fd_key = key
    return _fd


def emit(kind, **kw):
    rec = {'k': kind, 't': time.monotonic_ns(), 'pid': os.getpid(),
           'tid': threading.get_native_id()}
    rec.update(kw)
    os.write(_get_fd(), (json.dumps(rec, default=repr) + '\n').encode())


def reset():
    global _fd, _fd_key
    if _fd is not None:
        try:
            os.close(_fd)
        except OSError:
            pass
    _fd = None
    _fd_key = None


def read_events(ctl=None):
    path = os.path.join(ctl or ctl_dir(), 'events.jsonl')
    out = []
    try:
        with open(path, 'rb') as f:
            data = f.read()
    except FileNotFoundError:
        return out
    for line in data.split(b'\n'):
        if not line.strip():
            continue
        try:
            out.append(json.loads(line))
        except ValueError:
            # a process killed in the middle of a write can leave a torn line
            continue
    out.sort(key=lambda e: e['t'])
    return out
