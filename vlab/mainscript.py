"""Stand-alone user script (C07, C08): task types defined in the running script - module __main__ in the parent,
__mp_main__ in a spawned worker - driven through a seeded history of run / bust_cache / uncache / probe operations
against a plain dict model.  Every execution also reports the cache_key the *worker* sees for the task and for
each nested task, so that the parent can compare it with its own.
usage: python mainscript.py <workdir> <backend> <seed> <report.json>"""
import enum
import json
import os
import random
import sys
from typing import Any

import labtech

WORK = os.environ.get('VLAB_MAINSCRIPT_WORK', '')


def _gen():
    with open(os.path.join(WORK, 'gen')) as f:
        return int(f.read())


def _count(tag):
    fd = os.open(os.path.join(WORK, 'executed'), os.O_WRONLY | os.O_APPEND | os.O_CREAT)
    os.write(fd, (tag + '\n').encode())
    os.close(fd)


class Mode(enum.Enum):
    FAST = 'fast'
    SLOW = 'slow'


def _seen(task, deps):
    return {'key': task.cache_key, 'dep_keys': [d.cache_key for d in deps]}


@labtech.task
class Leaf:
    x: int
    mode: Mode = Mode.FAST

    def run(self):
        _count(f'Leaf{self.x}{self.mode.name}')
        return {'v': ['leaf', self.x, self.mode.name, _gen()], 'seen': _seen(self, [])}


@labtech.task
class Mid:
    leaf: Any
    opts: Any = None

    def run(self):
        _count(f'Mid{self.leaf.x}')
        return {'v': ['mid', self.leaf.result['v'], _gen()], 'seen': _seen(self, [self.leaf])}


@labtech.task(cache=None)
class Scratch:
    mids: list

    def run(self):
        _count('Scratch')
        return {'v': ['scratch', [m.result['v'] for m in self.mids], _gen()], 'seen': _seen(self, self.mids)}


@labtech.task
class Top:
    parts: dict
    label: str = 't'

    def run(self):
        _count(f'Top{self.label}')
        deps = [self.parts[k] for k in sorted(self.parts)]
        return {'v': ['top', self.label, [d.result['v'] for d in deps], _gen()], 'seen': _seen(self, deps)}


def build():
    l1, l2, l3 = Leaf(1), Leaf(2, mode=Mode.SLOW), Leaf(1, mode=Mode.SLOW)
    m1, m2 = Mid(leaf=l1, opts={'b': 1, 'a': [1, (2, 3)]}), Mid(leaf=l2)
    return {'l1': l1, 'l2': l2, 'l3': l3, 'm1': m1, 'm2': m2,
            's': Scratch(mids=[m1, m2]), 't': Top(parts={'p': m1, 'q': Leaf(2, mode=Mode.SLOW)}, label='T')}


DEPS = {'l1': [], 'l2': [], 'l3': [], 'm1': ['l1'], 'm2': ['l2'], 's': ['m1', 'm2'], 't': ['m1', 'l2']}
CACHEABLE = {'l1', 'l2', 'l3', 'm1', 'm2', 't'}


def plan(sub, cache, bust):
    """(executed, loaded) of run_tasks(sub) given the cached set."""
    E, L = set(), set()

    def visit(n):
        if n in E or n in L:
            return
        if n in cache and not bust:
            L.add(n)
            return
        E.add(n)
        for d in DEPS[n]:
            visit(d)
    for n in sub:
        visit(n)
    return E, L


def main():
    work, backend, seed, outp = sys.argv[1:5]
    labtech.logger.handlers = []
    rng = random.Random(f'mainscript:{seed}')
    store = os.path.join(work, 'store')
    names = list(DEPS)
    bad, obs = [], {'ops': [], 'worker_seen': 0, 'is_cached_checks': 0, 'executions': 0, 'modules': sorted({Leaf.__module__})}
    parent_keys = {n: t.cache_key for n, t in build().items()}
    obs['parent_keys'] = parent_keys
    cache = {}      # name -> value (model)
    gen = 0
    lab = labtech.Lab(storage=store, runner_backend=backend, max_workers=rng.choice([1, 2, 3]))

    def check_state(after):
        b = build()
        for n in names:
            obs['is_cached_checks'] += 1
            got = lab.is_cached(b[n])
            if got != (n in cache):
                bad.append(('phantom-entry' if got else 'entry-lost', f'after {after}: is_cached({n})={got}, model {n in cache}'))
        raw = sorted(k for k in os.listdir(store) if k != '.gitignore') if os.path.isdir(store) else []
        want = sorted(parent_keys[n] for n in cache)
        if raw != want:
            bad.append(('storage-keys-differ', f'after {after}: storage holds {raw}, model {want}'))
        listed = sorted(t.cache_key for t in lab.cached_tasks([Leaf, Mid, Scratch, Top]))
        if listed != want:
            bad.append(('cached_tasks-keyset-differs', f'after {after}: cached_tasks keys {listed}, model {want}'))

    for i in range(rng.randrange(3, 7)):
        if bad:
            break
        r = rng.random()
        sub = rng.sample(names, rng.randrange(1, 4))
        if i == 0 or r < 0.6:
            bust = i > 0 and rng.random() < 0.3
            op = ['run', sub, bust]
            gen += 1
            with open(os.path.join(work, 'gen'), 'w') as f:
                f.write(str(gen))
            E, L = plan(sub, set(cache), bust)
            open(os.path.join(work, 'executed'), 'w').close()
            b = build()
            if rng.random() < 0.3:
                lab = labtech.Lab(storage=store, runner_backend=backend, max_workers=rng.choice([1, 2, 3]))
            try:
                res = lab.run_tasks([b[n] for n in sub], bust_cache=bust, disable_progress=True, disable_top=True)
            except BaseException as ex:   # noqa
                bad.append((f'run-raised:{type(ex).__name__}', f'op {i} {op}: {type(ex).__name__}: {ex}'))
                break
            nexec = len(open(os.path.join(work, 'executed')).read().split())
            obs['executions'] += nexec
            if nexec != len(E):
                bad.append(('executed-set-differs', f'op {i} {op}: {nexec} executions, model {sorted(E)} (cached {sorted(cache)})'))
            for n in dict.fromkeys(sub):
                v = res[b[n]]
                if n in E:
                    obs['worker_seen'] += 1
                    seen = v['seen']
                    want_seen = {'key': parent_keys[n], 'dep_keys': [parent_keys[d] for d in DEPS[n]]}
                    if seen != want_seen:
                        bad.append(('worker-key-differs', f'op {i} {op}: inside run() ({backend}) {n} saw cache keys '
                                    f'{seen}, the caller computes {want_seen}'))
                    if v['v'][-1] != gen:
                        bad.append(('wrong-value-or-generation', f'op {i} {op}: executed {n} returned {v["v"]}, generation {gen}'))
                    if n in CACHEABLE:
                        cache[n] = v['v']
                else:
                    if v['v'] != cache[n]:
                        bad.append(('wrong-value-or-generation', f'op {i} {op}: loaded {n} returned {v["v"]}, stored {cache[n]}'))
            # executed but not requested tasks: their stored value is whatever this generation computed
            for n in E - set(sub):
                if n in CACHEABLE:
                    cache[n] = None
            # resolve the unknown values by loading them (must not execute)
            unknown = [n for n in cache if cache[n] is None]
            if unknown:
                open(os.path.join(work, 'executed'), 'w').close()
                b2 = build()
                res2 = lab.run_tasks([b2[n] for n in unknown], disable_progress=True, disable_top=True)
                if open(os.path.join(work, 'executed')).read().split():
                    bad.append(('executed-set-differs', f'op {i} {op}: dependencies {unknown} executed by this run were '
                                f'executed again instead of loaded'))
                for n in unknown:
                    cache[n] = res2[b2[n]]['v']
                    if cache[n][-1] != gen:
                        bad.append(('wrong-value-or-generation', f'op {i} {op}: stored value of {n} is {cache[n]}, '
                                    f'generation {gen}'))
        elif r < 0.85:
            op = ['uncache', sub]
            b = build()
            lab.uncache_tasks([b[n] for n in sub])
            for n in sub:
                cache.pop(n, None)
        else:
            op = ['probe']
        obs['ops'].append(op)
        check_state(f'op {i} {op}')
    with open(outp, 'w') as f:
        json.dump({'bad': bad, 'obs': obs, 'backend': backend, 'seed': seed}, f)


if __name__ == '__main__':
    main()
    sys.stdout.flush()
    os._exit(0)
