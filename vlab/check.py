"""Supervisor: `cd /verif && /venv/bin/python -m vlab.check <ID> --tier quick|thorough [--replay path]`.

Starts the property's shards (fresh interpreters, own PYTHONHASHSEED, own
session, report written to a file), merges their reports, matches violations
against known_findings.json, writes evidence/<ID>.json and decides the exit
code: 0 held, 1 VIOLATION, 2 INCONCLUSIVE (deciding monitor saw too little)."""
import argparse
import importlib
import json
import os
import shutil
import signal
import subprocess
import sys
import tempfile
import time
from collections import Counter

HERE = os.path.dirname(os.path.dirname(os.path.abspath(__file__)))
REPO = os.environ.get('VLAB_REPO', '/repo')
PY = sys.executable


def load_known():
    path = os.path.join(HERE, 'known_findings.json')
    try:
        with open(path) as f:
            return json.load(f).get('findings', [])
    except FileNotFoundError:
        return []


def child_env(hashseed):
    env = dict(os.environ)
    env['PYTHONPATH'] = f'{REPO}:{HERE}'
    env['PYTHONHASHSEED'] = str(hashseed)
    env['PYTHONDONTWRITEBYTECODE'] = '1'
    env['VLAB_REPO'] = REPO
    env.setdefault('COLUMNS', '120')
    return env


def run_shards(prop, tier, seed, meta, replay=None):
    cfg = meta['tiers'][tier]
    nshards = 1 if replay else cfg['shards']
    budget = cfg['budget_s']
    hard = cfg.get('hard_s', budget * 3 + 60)
    scratch = tempfile.mkdtemp(prefix=f'vlab-{prop}-')
    procs = []
    par = min(cfg.get('parallel', 16), nshards)
    pending = list(range(nshards))
    reports, logs = [], {}
    running = []
    t0 = time.monotonic()
    try:
        while pending or running:
            while pending and len(running) < par:
                i = pending.pop(0)
                outfile = os.path.join(scratch, f'shard{i}.json')
                logfile = os.path.join(scratch, f'shard{i}.log')
                hashseed = (seed * 1009 + i * 7919 + 17) % 4294967295
                lf = open(logfile, 'wb')
                env = child_env(hashseed)
                env['TMPDIR'] = scratch
                args = [PY, '-m', 'vlab.shard', prop, tier, str(seed), str(i), str(nshards),
                        str(budget), outfile]
                if replay:
                    args.append(replay)
                p = subprocess.Popen(args, cwd=HERE, env=env, stdout=lf, stderr=lf,
                                     stdin=subprocess.DEVNULL, start_new_session=True)
                lf.close()
                running.append((i, p, outfile, logfile, time.monotonic(), hashseed))
            time.sleep(0.05)
            still = []
            for ent in running:
                i, p, outfile, logfile, ts, hs = ent
                rc = p.poll()
                timed_out = (time.monotonic() - ts) > hard
                if rc is None and not timed_out:
                    still.append(ent)
                    continue
                if rc is None:
                    try:
                        os.kill(p.pid, signal.SIGUSR1)   # faulthandler stacks into the log
                        time.sleep(0.5)
                    except OSError:
                        pass
                try:
                    os.killpg(p.pid, signal.SIGKILL)
                except OSError:
                    pass
                p.wait()
                rep = None
                if os.path.exists(outfile):
                    with open(outfile) as f:
                        rep = json.load(f)
                elif os.path.exists(outfile + '.ckpt'):
                    # the shard's interpreter died (signal / watchdog): keep what it had observed until then
                    with open(outfile + '.ckpt') as f:
                        rep = json.load(f)
                    rep['died'] = ('watchdog' if timed_out else f'rc={rc}')
                    rep.setdefault('inconclusives', []).append(
                        {'msg': f'shard interpreter died ({rep["died"]}); observations up to its last checkpoint kept',
                         'witness': None})
                    rep['n_inconclusive'] = rep.get('n_inconclusive', 0) + 1
                if rep is None:
                    with open(logfile, 'rb') as f:
                        tail = f.read()[-3000:].decode('utf-8', 'replace')
                    rep = {'prop': prop, 'shard': i, 'evaluations': 0, 'cases': {}, 'violations': [],
                           'n_violations': 0, 'n_inconclusive': 1,
                           'inconclusives': [{'msg': ('shard watchdog' if timed_out else f'shard died rc={rc}'),
                                              'witness': tail}],
                           'counters': {}, 'sets': {}, 'samples': [], 'foreign': {}, 'required': {},
                           'wall_s': time.monotonic() - ts, 'crashed': 'no report', 'hashseed': str(hs)}
                reports.append(rep)
            running = still
    finally:
        for ent in running:
            try:
                os.killpg(ent[1].pid, signal.SIGKILL)
            except OSError:
                pass
        shutil.rmtree(scratch, ignore_errors=True)
    return reports, time.monotonic() - t0


def merge(reports):
    m = {'evaluations': 0, 'cases': {}, 'violations': [], 'inconclusives': [], 'counters': Counter(),
         'sets': {}, 'samples': [], 'foreign': Counter(), 'required': {}, 'hashseeds': [],
         'n_violations': 0, 'n_inconclusive': 0, 'crashed': 0, 'labtech_files': set(), 'exhaustive': None}
    for r in reports:
        m['evaluations'] += r['evaluations']
        for k, v in r['cases'].items():
            m['cases'][k] = m['cases'].get(k, False) or v
        m['violations'] += r['violations']
        m['n_violations'] += r.get('n_violations', len(r['violations']))
        m['inconclusives'] += r['inconclusives']
        m['n_inconclusive'] += r.get('n_inconclusive', len(r['inconclusives']))
        m['counters'].update(r['counters'])
        for k, v in r['sets'].items():
            m['sets'].setdefault(k, set()).update(v)
        if len(m['samples']) < 5:
            m['samples'] += r['samples'][:2]
        m['foreign'].update(r['foreign'])
        for k, v in r['required'].items():
            m['required'][k] = max(m['required'].get(k, 0), v)
        if r.get('hashseed') is not None:
            m['hashseeds'].append(r['hashseed'])
        if r.get('crashed'):
            m['crashed'] += 1
        if r.get('died'):
            m['counters']['shards_died_after_checkpoint'] += 1
        if r.get('labtech_file'):
            m['labtech_files'].add(r['labtech_file'])
        if r.get('exhaustive') is not None:
            m['exhaustive'] = (r['exhaustive'] if m['exhaustive'] is None else (m['exhaustive'] and r['exhaustive']))
    return m


def main(argv=None):
    ap = argparse.ArgumentParser()
    ap.add_argument('prop')
    ap.add_argument('--tier', default=os.environ.get('VERIF_TIER', 'quick'), choices=['quick', 'thorough'])
    ap.add_argument('--replay')
    ap.add_argument('--no-evidence', action='store_true')
    args = ap.parse_args(argv)
    prop = args.prop.upper()
    seed = int(os.environ.get('VERIF_SEED', '0') or 0)
    sys.path.insert(0, HERE)
    meta = importlib.import_module(f'vlab.props.{prop.lower()}').META
    reports, wall = run_shards(prop, args.tier, seed, meta, replay=args.replay)
    m = merge(reports)
    mod = importlib.import_module(f'vlab.props.{prop.lower()}')
    if hasattr(mod, 'post_merge') and not args.replay:
        for key, msg, wit in mod.post_merge(m):
            m['violations'].append({'key': key, 'msg': msg, 'witness': wit})
            m['n_violations'] += 1
    known = [k for k in load_known() if k['property'] == prop and k.get('status') == 'open']
    known_keys = {k['key']: k for k in known}
    new, hit_known = [], Counter()
    for v in m['violations']:
        if v['key'] in known_keys:
            hit_known[v['key']] += 1
        else:
            new.append(v)
    rc = 0
    lines = []
    for key, n in sorted(hit_known.items()):
        lines.append(f"KNOWN-FINDING: property={prop} {key} ({n} witnesses this run) "
                     f"{known_keys[key].get('description', '')[:160]}")
    if new:
        rc = 1
        os.makedirs(os.path.join(HERE, 'replays', prop), exist_ok=True)
        shown = set()
        for v in new:
            if v['key'] in shown and len(shown) > 0:
                continue
            shown.add(v['key'])
            from vlab.report import h
            path = os.path.join(HERE, 'replays', prop, f"{h([v['key'], v['msg']])}.json")
            with open(path, 'w') as f:
                json.dump({'property': prop, 'key': v['key'], 'msg': v['msg'], 'witness': v['witness'],
                           'seed': seed, 'tier': args.tier}, f, indent=1, default=repr)
            lines.append(f"VIOLATION property={prop} replay={path}")
            lines.append(f"  key={v['key']} :: {v['msg'][:400]}")
    unmet = {k: (m['counters'].get(k, 0), need) for k, need in m['required'].items()
             if m['counters'].get(k, 0) < need}
    distinct_nontrivial = sum(1 for v in m['cases'].values() if v)
    if rc == 0 and not args.replay and (unmet or distinct_nontrivial < 2 or m['crashed']):
        rc = 2
        lines.append(f"INCONCLUSIVE property={prop} unmet={unmet} distinct_nontrivial={distinct_nontrivial} "
                     f"crashed_shards={m['crashed']}")
        for inc in m['inconclusives'][:3]:
            lines.append('  inconclusive: ' + inc['msg'] + ' :: ' + str(inc.get('witness'))[-1500:])
    elif m['n_inconclusive']:
        if os.environ.get('VLAB_SHOW_INCONCLUSIVE'):
            for inc in m['inconclusives'][:6]:
                lines.append('  inconclusive: ' + inc['msg'][:300] + ' :: ' + json.dumps(inc.get('witness'), default=repr)[:6000])
        lines.append(f"note: {m['n_inconclusive']} scenario(s) inconclusive (not counted as held): "
                     + '; '.join(sorted({i['msg'][:80] for i in m['inconclusives']}))[:400])
    if not args.replay and not args.no_evidence:
        ev = {
            'property_id': prop, 'tier': args.tier, 'seed': seed, 'level': meta['level'],
            'coverage': {
                'evaluations': m['evaluations'],
                'distinct_nontrivial': distinct_nontrivial,
                'rule': meta['rule'],
                'samples': m['samples'][:5],
                'counters': dict(sorted(m['counters'].items())),
                'distinct_observed': {k: len(v) for k, v in sorted(m['sets'].items())},
                'hash_seeds': sorted(set(m['hashseeds'])),
                'shards': len(reports),
                'foreign_outcomes': dict(m['foreign']),
                'inconclusive': m['n_inconclusive'],
                'known_findings_hit': dict(hit_known),
                'labtech_under_test': sorted(m['labtech_files']),
            },
            'assumptions': meta.get('assumptions', []),
            'wall_s': round(wall, 2),
            'violations': len(new),
        }
        if m['exhaustive'] is not None:
            ev['coverage']['exhaustive'] = bool(m['exhaustive'])
        os.makedirs(os.path.join(HERE, 'evidence'), exist_ok=True)
        with open(os.path.join(HERE, 'evidence', f'{prop}.json'), 'w') as f:
            json.dump(ev, f, indent=1, default=repr)
    summary = (f"{prop} tier={args.tier} seed={seed} evaluations={m['evaluations']} "
               f"distinct_nontrivial={distinct_nontrivial} violations={len(new)} known={sum(hit_known.values())} "
               f"inconclusive={m['n_inconclusive']} wall={wall:.1f}s")
    print(summary)
    keyc = {k: v for k, v in sorted(m['counters'].items())}
    print('observed: ' + json.dumps(keyc)[:1500])
    for ln in lines:
        print(ln)
    sys.stdout.flush()
    return rc


if __name__ == '__main__':
    sys.exit(main())
