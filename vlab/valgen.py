"""Value grammar for C07/C09/C15.

Values are generated as JSON-able *descriptions* (so witnesses can be stored
and rebuilt in another interpreter) and realised into Python objects:
  {'s': x}  None/bool/int/str      {'f': repr}  float
  {'e': [module, class, member]}    enum member
  {'l': [..]} list  {'t': [..]} tuple  {'d': [[k, v]..]} dict  {'fd': [[k, v]..]} frozendict
  {'task': [module, class, p_desc, q_desc]}  nested task
  {'u': kind}  unsupported value         {'m': kind, ...}  marker-imitating dict
"""
import copy
import importlib

INTS = [0, 1, -1, 2, 7, 2 ** 63, -2 ** 70, 10 ** 30]
FLOATS = ['0.0', '1.0', '1.5', '-1.0', '1e+308', '5e-324', 'inf', '-inf', '0.1', '2.0']
STRS = ['', 'a', 'None', '1', '1.0', 'true', 'é漢字', '\ud800', '"q"\\\n\t', 'Infinity', 'RED', 'a' * 40,
        '{"_is_task": true}', ' ', 'null']
ENUMS = [['vlab.tasks_core', 'Color', 'RED'], ['vlab.tasks_core', 'Color', 'GREEN'],
         ['vlab.tasks_core', 'Shade', 'RED'], ['vlab.tasks_core', 'Shade', 'DARK'],
         ['vlab.tasks_alt', 'Color', 'RED'], ['vlab.tasks_alt', 'Color', 'GREEN'],
         ['vlab.tasks_core', 'Level', 'LOW'], ['vlab.tasks_core', 'Level', 'HIGH'], ['vlab.tasks_core', 'Level', 'ZERO'],
         ['vlab.tasks_core', 'Mode', 'A'], ['vlab.tasks_core', 'Mode', 'RED'], ['vlab.tasks_core', 'Mode', 'EMPTY'],
         ['vlab.tasks_core', 'Perm', 'R'], ['vlab.tasks_core', 'Perm', 'W'],
         ['vlab.tasks_core', 'Train.Mode', 'FAST'], ['vlab.tasks_core', 'Train.Mode', 'SLOW'],
         ['vlab.tasks_core', 'Evaluate.Mode', 'FAST'], ['vlab.tasks_core', 'Evaluate.Mode', 'FULL']]
TASKS = [['vlab.tasks_core', 'VA'], ['vlab.tasks_core', 'VB'], ['vlab.tasks_core', 'VAX'],
         ['vlab.tasks_alt', 'VA'], ['vlab.tasks_core', 'VJ'], ['vlab.tasks_core', 'VP'], ['vlab.tasks_core', 'VU'],
         ['vlab.tasks_core', 'V\u00c9'], ['vlab.tasks_core', 'V__W_'], ['vlab.tasks_core', 'kick_']]
KEYS = ['a', 'b', 'k', '', 'é', 'name', 'is_task', 'x.y', '0', 'p']
UNSUPPORTED = ['set', 'bytes', 'object', 'complex', 'intkey', 'nonekey', 'tuplekey', 'frozenset', 'bytearray',
               'function', 'type', 'taskclass', 'taskclass-required', 'mixedkey-int', 'mixedkey-none', 'mixedkey-tuple', 'mixedkey-last']


def gen_scalar(rng):
    r = rng.random()
    if r < 0.1:
        return {'s': None}
    if r < 0.2:
        return {'s': rng.choice([True, False])}
    if r < 0.45:
        return {'s': rng.choice(INTS)}
    if r < 0.65:
        return {'f': rng.choice(FLOATS)}
    if r < 0.88:
        return {'s': rng.choice(STRS)}
    return {'e': list(rng.choice(ENUMS))}


def gen_value(rng, depth=3, *, tasks=True, width=3):
    if depth <= 0 or rng.random() < 0.35:
        return gen_scalar(rng)
    r = rng.random()
    n = rng.randrange(0, width + 1)
    if r < 0.35:
        return {rng.choice(['l', 't']): [gen_value(rng, depth - 1, tasks=tasks, width=width) for _ in range(n)]}
    if r < 0.7:
        keys = rng.sample(KEYS, min(n, len(KEYS)))
        return {rng.choice(['d', 'fd']): [[k, gen_value(rng, depth - 1, tasks=tasks, width=width)] for k in keys]}
    if tasks:
        m, c = rng.choice(TASKS)
        return {'task': [m, c, gen_value(rng, depth - 1, tasks=tasks, width=width),
                         gen_value(rng, max(0, depth - 2), tasks=tasks, width=width)]}
    return gen_scalar(rng)


def realize(desc):
    from frozendict import frozendict
    if 's' in desc:
        return desc['s']
    if 'f' in desc:
        return float(desc['f'])
    if 'e' in desc:
        m, c, name = desc['e']
        cls = importlib.import_module(m)
        for part in c.split('.'):       # enum classes may be nested in other classes
            cls = getattr(cls, part)
        return cls[name]
    if 'l' in desc:
        return [realize(x) for x in desc['l']]
    if 't' in desc:
        return tuple(realize(x) for x in desc['t'])
    if 'd' in desc:
        return {realize_key(k): realize(v) for k, v in desc['d']}
    if 'fd' in desc:
        return frozendict({realize_key(k): realize(v) for k, v in desc['fd']})
    if 'task' in desc:
        m, c, p, q = desc['task']
        return make_task(m, c, realize(p), realize(q))
    if 'sub' in desc:
        base, v = desc['sub']
        core = importlib.import_module('vlab.tasks_core')
        return {'float': core.SubFloat, 'str': core.SubStr, 'int': core.SubInt}[base](float(v) if base == 'float' else v)
    if 'u' in desc:
        return make_unsupported(desc['u'])
    if 'm' in desc:
        return make_marker(desc)
    raise ValueError(desc)


def pickle_protocols(task):
    """Protocols 0-2 cannot name a global with a non-ASCII identifier (a limitation of pickle itself, whatever
    the class is); multiprocessing uses the default protocol (>= 4)."""
    import pickle
    lo = 0
    try:
        pickle.dumps(task, protocol=0)
    except pickle.PicklingError as ex:      # the task or a task nested in its parameters has such a type
        if 'global identifier' not in str(ex):
            raise
        lo = 3
    except Exception:
        pass                                # judged by the caller's own round trips
    return range(lo, pickle.HIGHEST_PROTOCOL + 1)


def realize_key(k):
    """Dict keys prefixed by \\x00E: / \\x00S: stand for an equal string of another type: a member of a (str, Enum)
    mix-in, an instance of a str subclass (only with_scalar_subclasses() produces them)."""
    if k.startswith('\x00E:'):
        return importlib.import_module('vlab.tasks_core').KeyE(k[3:])
    if k.startswith('\x00S:'):
        return importlib.import_module('vlab.tasks_core').SubStr(k[3:])
    return k


def make_task(module, cls, p, q):
    T = getattr(importlib.import_module(module), cls)
    if cls == 'VU':
        return T(p=p, _q=q)
    return T(p=p, q=q)


def make_unsupported(kind):
    return {
        'set': lambda: {1, 2}, 'bytes': lambda: b'xy', 'object': lambda: object(), 'complex': lambda: 1 + 2j,
        'intkey': lambda: {1: 'a'}, 'nonekey': lambda: {None: 1}, 'tuplekey': lambda: {('a',): 1},
        'frozenset': lambda: frozenset([1]), 'bytearray': lambda: bytearray(b'a'),
        'function': lambda: len, 'type': lambda: int,
        # a task TYPE (the class, not an instance): all fields defaulted / with a required field
        'taskclass': lambda: importlib.import_module('vlab.tasks_core').VA,
        'taskclass-required': lambda: importlib.import_module('vlab.tasks_core').NA,
        # one bad key among string keys (the keys of such a dict cannot even be ordered against each other)
        'mixedkey-int': lambda: {'lr': 0.1, 0: 'layer'}, 'mixedkey-none': lambda: {None: 1, 'a': 2},
        'mixedkey-tuple': lambda: {'b': 2, ('a',): 1, 'c': 3}, 'mixedkey-last': lambda: {'x': 1, 'y': 2, 3.5: 'z'},
    }[kind]()


def make_marker(desc):
    """Dicts that imitate the serializer's own marker encoding."""
    if desc['m'] == 'enum':
        m, c, name = desc['of']
        return {'_is_enum': True, '__class__': f'{m}.{c}', 'name': name}
    if desc['m'] == 'task':
        m, c = desc['of']
        return {'_is_task': True, '__class__': f'{m}.{c}', 'p': None, 'q': None}
    raise ValueError(desc)


def ident(desc):
    """Harness-owned typed canonical identity (1 != 1.0 != True; list == tuple;
    dict == frozendict with insertion order; enum by module/class/member)."""
    if 's' in desc:
        v = desc['s']
        return [type(v).__name__, v]
    if 'f' in desc:
        return ['float', repr(float(desc['f']))]
    if 'e' in desc:
        return ['enum'] + list(desc['e'])
    if 'l' in desc or 't' in desc:
        return ['seq', [ident(x) for x in (desc.get('l') if 'l' in desc else desc['t'])]]
    if 'd' in desc or 'fd' in desc:
        items = desc.get('d') if 'd' in desc else desc['fd']
        return ['map', [[k, ident(v)] for k, v in items]]
    if 'task' in desc:
        m, c, p, q = desc['task']
        return ['task', m, c, ident(p), ident(q)]
    if 'm' in desc:
        return ['marker', desc['m'], desc['of']]
    raise ValueError(desc)


def task_ident(module, cls, p, q):
    return ['task', module, cls, ident(p), ident(q)]


def respell(rng, desc, prob=0.5):
    """An equal re-spelling: list<->tuple, dict<->frozendict at random nodes."""
    d = copy.deepcopy(desc)

    def rec(x):
        if 'l' in x or 't' in x:
            items = x.pop('l', None)
            if items is None:
                items = x.pop('t')
            for i in items:
                rec(i)
            x[rng.choice(['l', 't']) if rng.random() < prob else 't'] = items
        elif 'd' in x or 'fd' in x:
            items = x.pop('d', None)
            if items is None:
                items = x.pop('fd')
            for _, v in items:
                rec(v)
            x[rng.choice(['d', 'fd']) if rng.random() < prob else 'fd'] = items
        elif 'task' in x:
            rec(x['task'][2])
            rec(x['task'][3])
    rec(d)
    return d


def nodes(desc, path=()):
    out = [(path, desc)]
    if 'l' in desc or 't' in desc:
        k = 'l' if 'l' in desc else 't'
        for i, x in enumerate(desc[k]):
            out += nodes(x, path + ((k, i),))
    elif 'd' in desc or 'fd' in desc:
        k = 'd' if 'd' in desc else 'fd'
        for i, (_, v) in enumerate(desc[k]):
            out += nodes(v, path + ((k, i),))
    elif 'task' in desc:
        out += nodes(desc['task'][2], path + (('task', 2),))
        out += nodes(desc['task'][3], path + (('task', 3),))
    return out


def _get(desc, path):
    x = desc
    for k, i in path:
        x = x[k][i] if k in ('l', 't', 'task') else x[k][i][1]
    return x


def _set(desc, path, new):
    if not path:
        return new
    parent = _get(desc, path[:-1])
    k, i = path[-1]
    if k in ('l', 't', 'task'):
        parent[k][i] = new
    else:
        parent[k][i][1] = new
    return desc


def near_miss(rng, desc):
    """A value whose identity differs from desc in exactly one small way.
    Returns (new_desc, kind) or None."""
    d = copy.deepcopy(desc)
    path, node = rng.choice(nodes(d))
    kind = None
    new = None
    if 's' in node or 'f' in node:
        v = node.get('s') if 's' in node else float(node['f'])
        opts = []
        if isinstance(v, bool):
            opts = [{'s': int(v)}, {'f': repr(float(v))}, {'s': str(v)}, {'s': not v}]
        elif isinstance(v, int):
            opts = [{'f': repr(float(v))} if abs(v) < 2 ** 53 else {'s': str(v)}, {'s': str(v)}, {'s': v + 1}]
            if v in (0, 1):
                opts.append({'s': bool(v)})
        elif isinstance(v, float):
            opts = [{'s': repr(v)}]
            if v == int(v) if v not in (float('inf'), float('-inf')) else False:
                opts.append({'s': int(v)})
        elif isinstance(v, str):
            opts = [{'s': v + ' '}, {'s': None} if v in ('', 'None') else {'s': v.upper() if v.upper() != v else v + 'x'}]
        elif v is None:
            opts = [{'s': ''}, {'s': 'None'}, {'s': 0}, {'s': False}, {'t': []}]
        new = rng.choice(opts)
        kind = 'scalar'
    elif 'e' in node:
        m, c, name = node['e']
        opts = [e for e in ENUMS if e != node['e'] and (e[2] == name or e[1] == c)] or [e for e in ENUMS if e != node['e']]
        new = {'e': list(rng.choice(opts))}
        kind = 'enum'
        r = rng.random()
        if r < 0.2:
            new = {'s': name}
        elif r < 0.55:
            # the member's underlying value (mixed-in enums ARE int/str instances)
            val = realize(node).value
            if isinstance(val, (int, str)) and not isinstance(val, bool):
                new = {'s': val}
                kind = 'enum-to-value'
    elif 'l' in node or 't' in node:
        k = 'l' if 'l' in node else 't'
        r = rng.random()
        if r < 0.35:
            new = {k: [copy.deepcopy(node)]}          # extra nesting level
            kind = 'nesting'
        elif r < 0.6 and len(node[k]) == 1:
            new = copy.deepcopy(node[k][0])            # one level less
            kind = 'nesting'
        elif r < 0.8:
            new = {k: node[k] + [{'s': None}]}
            kind = 'length'
        else:
            items = list(node[k])
            if len(items) >= 2 and ident(items[0]) != ident(items[-1]):
                items[0], items[-1] = items[-1], items[0]
                new = {k: items}
                kind = 'order'
            else:
                new = {k: node[k] + [{'s': 0}]}
                kind = 'length'
    elif 'd' in node or 'fd' in node:
        k = 'd' if 'd' in node else 'fd'
        items = copy.deepcopy(node[k])
        if items and rng.random() < 0.5:
            i = rng.randrange(len(items))
            nk = items[i][0] + '_'
            if nk in [x[0] for x in items]:
                nk += '_'
            items[i][0] = nk
            kind = 'dictkey'
        else:
            nk = 'zz'
            while nk in [x[0] for x in items]:
                nk += 'z'
            items.append([nk, {'s': None}])
            kind = 'dictsize'
        new = {k: items}
    elif 'task' in node:
        m, c, p, q = node['task']
        opts = [t for t in TASKS if t != [m, c]]
        pref = [t for t in opts if t[1] == c or t[1].startswith(c) or c.startswith(t[1])]
        m2, c2 = rng.choice(pref or opts)
        new = {'task': [m2, c2, p, q]}
        kind = 'tasktype'
    else:
        return None
    d = _set(d, path, new)
    if ident(d) == ident(desc):
        return None
    return d, kind


def plant(rng, desc, bad):
    """Plant `bad` (a description) at a random position of a container-rich value."""
    d = copy.deepcopy(desc)
    cands = [(p, n) for p, n in nodes(d) if any(k in n for k in ('l', 't', 'd', 'fd'))]
    if not cands:
        return {'l': [d, bad]}
    path, node = rng.choice(cands)
    for k in ('l', 't'):
        if k in node:
            node[k].insert(rng.randrange(len(node[k]) + 1), bad)
            return d
    k = 'd' if 'd' in node else 'fd'
    node[k].append(['planted', bad])
    return d


def with_scalar_subclasses(rng, desc):
    """The same value with some plain str/int/float leaves (at any depth, outside nested tasks too) replaced by an
    equal instance of a non-Enum SUBCLASS of that scalar type ({'sub': [base, v]}); None when there is no such leaf.
    Only realize() understands the result."""
    d = copy.deepcopy(desc)
    leaves = [(p, n) for p, n in nodes(d)
              if 'f' in n or ('s' in n and type(n['s']) in (int, str))]
    dicts = [n for _, n in nodes(d) if ('d' in n or 'fd' in n) and (n.get('d') or n.get('fd'))]
    if dicts and (not leaves or rng.random() < 0.5):
        # ... or some dict keys replaced by equal strings of another type
        n = rng.choice(dicts)
        items = n['d'] if 'd' in n else n['fd']
        for it in rng.sample(items, rng.randrange(1, len(items) + 1)):
            it[0] = ('\x00E:' if rng.random() < 0.6 else '\x00S:') + it[0]
        if not leaves or rng.random() < 0.5:
            return d
    if not leaves:
        return None
    for path, n in rng.sample(leaves, rng.randrange(1, min(3, len(leaves)) + 1)):
        new = {'sub': ['float', n['f']]} if 'f' in n else {'sub': [type(n['s']).__name__, n['s']]}
        if not path:
            return new
        n.clear()
        n.update(new)
    return d


def plain_scalars(desc):
    """Inverse of with_scalar_subclasses."""
    if isinstance(desc, dict) and 'sub' in desc:
        base, v = desc['sub']
        return {'f': v} if base == 'float' else {'s': v}
    if isinstance(desc, str) and desc[:3] in ('\x00E:', '\x00S:'):
        return desc[3:]
    if isinstance(desc, dict):
        return {k: plain_scalars(v) for k, v in desc.items()}
    if isinstance(desc, list):
        return [plain_scalars(x) for x in desc]
    return desc


def harness_norm(obj):
    """Independent normaliser: what a supported parameter value must look like
    after task construction."""
    from enum import Enum

    from frozendict import frozendict
    if isinstance(obj, (list, tuple)):
        return tuple(harness_norm(x) for x in obj)
    if isinstance(obj, (dict, frozendict)):
        return frozendict({k: harness_norm(v) for k, v in obj.items()})
    return obj


def no_mutable_inside(obj):
    from frozendict import frozendict
    if isinstance(obj, frozendict):      # (frozendict may subclass dict)
        return all(no_mutable_inside(x) for x in obj.values())
    if isinstance(obj, (list, dict, set, bytearray)):
        return False
    if isinstance(obj, tuple):
        return all(no_mutable_inside(x) for x in obj)
    if hasattr(type(obj), '_lt'):
        from dataclasses import fields
        return all(no_mutable_inside(getattr(obj, f.name)) for f in fields(obj))
    return True


def obj_ident(v):
    """Typed canonical identity computed from a realised object (same shape as ident())."""
    from dataclasses import fields
    from enum import Enum
    if hasattr(type(v), '_lt') and hasattr(v, '_is_task'):
        return ['task', type(v).__module__, type(v).__qualname__] + [obj_ident(getattr(v, f.name)) for f in fields(v)]
    if isinstance(v, Enum):
        return ['enum', type(v).__module__, type(v).__qualname__, v.name]
    if isinstance(v, (list, tuple)):
        return ['seq', [obj_ident(x) for x in v]]
    if hasattr(v, 'items'):
        return ['map', [[k, obj_ident(x)] for k, x in v.items()]]
    if isinstance(v, float):
        return ['float', repr(v)]
    return [type(v).__name__, v]


def python_equal_respell(rng, desc):
    """A value Python considers equal (and that hashes equally) but that is WRITTEN differently: dict items in
    another insertion order, ints as equal floats/bools.  Used for the ==/hash laws only (cache keys may differ:
    insertion order and scalar type are part of how a task is built)."""
    d = copy.deepcopy(desc)
    changed = [False]

    def rec(x):
        for k in ('d', 'fd'):
            if k in x and len(x[k]) >= 2 and rng.random() < 0.8:
                items = x[k]
                rng.shuffle(items)
                changed[0] = True
        if 's' in x and isinstance(x['s'], int) and not isinstance(x['s'], bool) and abs(x['s']) < 2 ** 53 \
                and rng.random() < 0.3:
            v = x.pop('s')
            if v in (0, 1) and rng.random() < 0.5:
                x['s'] = bool(v)
            else:
                x['f'] = repr(float(v))
            changed[0] = True
            return
        for k in ('l', 't'):
            if k in x:
                for i in x[k]:
                    rec(i)
        for k in ('d', 'fd'):
            if k in x:
                for _, v in x[k]:
                    rec(v)
        if 'task' in x:
            rec(x['task'][2])
            rec(x['task'][3])
    rec(d)
    return d if changed[0] else None
