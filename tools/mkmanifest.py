#!/usr/bin/env python3
"""Regenerates /verif/MANIFEST.json from the table below (keeps it valid)."""
import json
import os

HERE = os.path.dirname(os.path.dirname(os.path.abspath(__file__)))
props = [json.loads(l) for l in open(os.path.join(HERE, 'properties.jsonl'))]

CHECKS = {
 'C01': ('exploration', 'reference-evaluator oracle over returned dicts; spy/sim Runner + gate-controlled real runs; near-miss task twins whose value is their own typed identity; second Lab re-running the first Lab\'s task objects under another context',
         'Held on every explored (DAG, configuration, schedule): returned keys == requested (dedup, in order), every value == independent sequential evaluation, and equal across two configurations of the same spec. Exploration is the right level: the space (DAG shapes x configs x completion orders) is unbounded and the code is exercised for real.',
         'Trusts vlab.body.combine as the definition of a task value, the generator spec as ground truth for dependencies, CLOCK_MONOTONIC for cross-process order.', '4 C01'),
 'C02': ('exploration', 'happens-before trace oracle at the Runner boundary and over run() start/end/dep-read events',
         'Held on every explored trace: no submit/start before all dependencies yielded/ended; each dependency read returned the reference value, or raised for a failed dependency.',
         'Trusts the spec as ground truth for dependencies and the shared monotonic clock.', '4 C02'),
 'C03': ('exploration', 'plan-model oracle (closure with cache cut-offs) over start events, recorded storage reads, submit calls, result_meta of reachable instances',
         'Held on every explored (DAG, duplication pattern, cached subset, requested subset, schedule): executed multiset == planned executed set, loads == planned loaded set, every reachable instance marked.',
         'Trusts the recording LocalStorage subclass and the harness walk over parameters.', '4 C03'),
 'C04': ('exploration', 'in-flight counters at the Runner boundary, launch ledger + run() intervals at gate-controlled rest points, interval sweep',
         'Held on every explored run: per-type in-flight <= max_parallel at every submit; launched-unfinished processes and tasks inside run() <= max_workers at every rest point and over the whole interval sweep; serial runs in the caller thread.',
         'A worker counts from Process.start() to its run() end event; trusts the ledger wrapper on multiprocessing.process.BaseProcess.start.', '4 C04'),
 'C05': ('exploration', 'work-conservation oracle at every wait() entry and at every gate-controlled rest point; lingering worker processes that watch the event log for the next start',
         'Held on every explored rest point: no runnable-and-allowed task left unsubmitted; executing set == first max_workers in-flight tasks; serial wait() executes exactly one pending submission.',
         'Start-up wait expiry with sufficient launches is inconclusive, never a violation.', '4 C05'),
 'C07': ('exploration', 'key ledger (typed canonical identity <-> cache_key) checked as function and injection; cross-interpreter digest comparison under 16 hash seeds',
         'Held on every explored tree: one identity -> one key (re-spelling, pickling, serializer round trip, 16 interpreters with different hash seeds), different identities -> different keys for every near-miss pair, every key accepted by LocalStorage. One known finding (marker-imitating dicts).',
         'The harness identity is the definition of "distinct task": 1/1.0/True distinct, list==tuple, dict==frozendict with insertion order.', '4 C07'),
 'C15': ('exploration', 'algebraic-law monitors on constructed tasks, pickle copies (all protocols) and copies received by a freshly spawned interpreter',
         'Held on every explored tree: normalisation, frozen, eq/hash laws, copy laws incl. post_init and absence of results/context; unsupported values rejected with TaskError only.',
         'Harness normaliser/identity are the reference; NaN excluded.', '4 C15'),
 'C16': ('exploration', 'process-model table + context oracle over run() start events; canary scan of stored files',
         'Held on every explored run: pid/ppid/thread/memory-inheritance as the backend promises, context == own filter_context(lab context), keys and stored bytes independent of context.',
         'Memory sharing observed through a module global mutated after import.', '4 C16'),
 'C06': ('exploration', 'first-run/second-run/fresh-interpreter comparison of generation-stamped values, start events and result_meta',
         'Held on every explored (DAG, result shapes, backend triple, storage): executed => cached; later runs in the same and in a fresh interpreter (other hash seed, other backend) return the recorded values without run() and with the recorded start/duration.',
         'Values embed task name and generation so cross-wired/re-executed results differ.', '4 C06'),
 'C08': ('exploration', 'step-by-step comparison of observable Lab state with a dict reference model over random operation histories; audit hook for storage=None',
         'Held after every operation of every explored history across 5 storage providers and 3 backends.',
         'cached_tasks compared by key set; memory fsspec only with the serial backend.', '4 C08'),
 'C09': ('exploration', 'multiset oracle over cached_tasks output for every type list + reload without execution',
         'Held on every explored storage content: exactly the cached tasks of the listed types, once, equal, same key, stored meta; reload executes nothing. One known finding (marker-imitating dicts).',
         'Typed canonical identity decides which tasks are distinct; cases with Python-equal but distinct tasks (1 vs 1.0) skipped.', '4 C09'),
 'C10': ('fault_enumeration', 'failure-closure (taint) model over results, cache contents, start events, launch ledger after the raise',
         'Held for every explored (DAG, failing subset, fault kind, backend, completion order, continue_on_failure).',
         'Unpicklable exceptions may surface as TaskDiedError; no bust_cache with failures.', '4 C10'),
 'C18': ('exploration', 'file-system snapshot diff + sys.addaudithook record of every path operation around each LocalStorage call on an adversarial sandbox (strace cross-check in the thorough tier)',
         'Held on every explored (key, filename, operation, mode): outside canaries byte-identical, every changed or audited path inside the one direct child the key names.',
         'A key that is a symlink to a sibling key dir names that sibling; stat() during path resolution is not an open.', '4 C18'),
 'C19': ('exploration', 'exactly-once token oracle over records received by a handler on labtech.logger at the moment run_tasks returns; gate-controlled choice of the last finisher; logger-level axes, exc_info / unpicklable-argument records, workers that die after emitting',
         'Held on every explored run: each unique token emitted by an executed task (logger levels; stdout/stderr print/flush patterns on process backends) occurs exactly once in the received records before run_tasks returns.',
         'stdout/stderr capture only promised for process backends.', '4 C19'),
 'C20': ('exploration', 'parse-back of build_task_diagram output compared with an independent traversal of the generated graph; cross-interpreter digest comparison',
         'Held on every explored graph: one class block per reachable type with all fields and run signature, one arrow per (dependent type, parameter, dependency type) with the right "many" flag, deterministic output.',
         'Per-arrow reading of "many"; block/arrow order not asserted.', '4 C20'),
 'C11': ('fault_enumeration', 'logical spin detector at the Runner boundary + bounded-progress watchdog with logical confirmation (no worker alive) under failures, deaths and external SIGKILLs via pidfds',
         'Held on every explored run: no three consecutive wait() calls with nothing in flight; every run returned or raised within B=30 s; a watchdog expiry counts as violated only when no worker of the run is alive.',
         'Liveness restated as bounded progress; B=30 s vs 0.5 s polling and sub-0.1 s tasks.', '4 C11'),
 'C12': ('fault_enumeration', 'single-fault exception injection at every executed line of the save path (sys.monitoring failpoint), every storage open/write/flush/close, unpicklable results (also on an upload-on-close storage); post-state oracle reported => loadable, asked of the Lab that ran the save and of a fresh Lab',
         'Held for every enumerated fault point x cache format x first/overwrite x shape x victim (serial caller, fork worker): the task is reported failed and its entry is either not reported or loads the old/new value; bystander entry intact.',
         'Line and write-call granularity; storage faults raised by a LocalStorage subclass.', '4 C12'),
 'C13': ('fault_enumeration', 'SIGKILL/SIGTERM of the saving process at every executed line of the save path and every write-call boundary / mid-write split (flushed or not); verdict by a process that never ran the save; file-system signature classifier',
         'For every enumerated kill point the verdict (not reported | loads old/new | poisoned) is computed; poisoned outcomes whose post-kill signature shows an incomplete entry are the open known finding (labtech has no commit protocol); any other bad outcome is a violation.',
         'Line / write-call granularity; a forked copy of the harness stands in for the serial caller (fresh interpreter on a sample).', '4 C13'),
 'C14': ('fault_enumeration', 'interrupt arriving at the k-th labtech line of the calling thread (sys.monitoring LINE failpoint) and delivered as KeyboardInterrupt at the next eval-breaker-equivalent event (function entry, loop back-edge, return from C), every line of labtech/cache.py (the save window) always enumerated, second interrupt k2 lines later incl. sweeps over the first interrupt\'s handler, real process-group SIGINT at gate-controlled rest points / at launch; oracles O1-O4 over exception type, launch ledger, event log, cache post-state; SIGALRM hang watchdog',
         'Held for every delivered interrupt: KeyboardInterrupt raised, nothing started afterwards, workers launched before a single interrupt finished and were cached, cache consistent; after a second interrupt workers dead and at most one epilogue wait().',
         'Line granularity in the calling thread; real signals only at controlled points.', '4 C14'),
 'C17': ('exploration', 'holders-model oracle over remove_results calls + probes of the real runner after each release, at each submit and at close()',
         'Held on every explored trace: nothing released while a direct dependent is unfinished, everything released right after its last dependent finished, requested values captured before release, nothing retrievable at close() after a normal return.',
         'Runner.get_result raising KeyError <=> no in-memory result.', '4 C17'),
}
REASON_PENDING = 'check under construction; will be claimed once its monitor is validated'

checks = []
for pid, (level, tech, text, note, ref) in CHECKS.items():
    checks.append({
        'property_id': pid,
        'quick_cmd': f'cd /verif && /venv/bin/python -m vlab.check {pid} --tier quick',
        'thorough_cmd': f'cd /verif && /venv/bin/python -m vlab.check {pid} --tier thorough',
        'evidence_file': f'/verif/evidence/{pid}.json',
        'replay_cmd_template': f'cd /verif && /venv/bin/python -m vlab.check {pid} --replay {{path}}',
        'engine': 'vlab',
        'level_claimed': {'category': level, 'text': text, 'design_ref': f'DESIGN.md section {ref}'},
        'level_note': note,
        'technique': 'runtime monitoring: ' + tech,
    })
m = {
 'version': 1,
 'setup_cmd': 'cd /verif && /venv/bin/python -m vlab.selftest',
 'hooks': {'guard': 'LABTECH_VERIF',
           'enable': "no source hooks: all observation goes through labtech's public RunnerBackend/Storage/Cache extension points, harness-owned task bodies, sys.monitoring and a wrapper on multiprocessing.process.BaseProcess.start (stdlib)",
           'baseline_off_cmd': 'cd /repo && /venv/bin/python -m pytest -ra -q -p no:cacheprovider --timeout=900 --continue-on-collection-errors',
           'source_commits': [], 'add_only': True},
 'engines': [{'name': 'vlab', 'path': '/verif/vlab', 'serves_properties': [p['id'] for p in props],
              'kind_free_text': 'runtime monitoring: spy/sim Runner, gate controller, launch ledger, event log, line failpoints, reference models'}],
 'checks': checks,
 'not_applicable': [{'property_id': p['id'], 'reason': REASON_PENDING} for p in props if p['id'] not in CHECKS],
 'notes': 'See DESIGN.md. Checks import labtech from /repo working tree (PYTHONPATH) at run time. known_findings.json lists fixed/open findings.',
}
json.dump(m, open(os.path.join(HERE, 'MANIFEST.json'), 'w'), indent=1)
print('checks:', len(checks), 'not_applicable:', len(m['not_applicable']))
