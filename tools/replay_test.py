#!/usr/bin/env python3
"""Development helper: for (mutation, property) pairs, produce a violation on a mutated scratch copy, then run the
registered replay command on the witness - against the mutated copy (must exit 1) and against /repo (must exit 0)."""
import os, re, shutil, subprocess, sys, tempfile
sys.path.insert(0, '/verif')
from vlab.mutate import MUTATIONS
PAIRS = [('c01-results-in-completion-order', 'C01'), ('c02-unblock-at-start', 'C02'), ('c03-always-expand-deps', 'C03'),
         ('c04-type-limit-off-by-one', 'C04'), ('c05-ready-returns-one', 'C05'), ('c07-class-without-module', 'C07'),
         ('c08-uncache-by-prefix', 'C08'), ('c09-no-isinstance', 'C09'), ('c10-no-cause', 'C10'),
         ('c11-complete-task-early-return-on-failure', 'C11'), ('c12-cleanup-removed', 'C12'),
         ('c14-serial-swallows-interrupt', 'C14'), ('c15-sets-accepted', 'C15'), ('c16-fork-unfiltered-context', 'C16'),
         ('c17-remove-noop', 'C17'), ('c18-drop-filename-check', 'C18'), ('c19-revert-flush-clear', 'C19'),
         ('c20-and-cardinality', 'C20'), ('c13-data-into-other-dir', 'C13'), ('c06-meta-start-now', 'C06')]
only = sys.argv[1:] 
for mid, prop in PAIRS:
    if only and prop not in only:
        continue
    file, old, new, _ = MUTATIONS[mid]
    scratch = tempfile.mkdtemp(prefix='vlab-mut-')
    try:
        shutil.copytree('/repo/labtech', scratch + '/labtech')
        p = os.path.join(scratch, file); src = open(p).read()
        assert src.count(old) == 1, mid
        open(p, 'w').write(src.replace(old, new))
        env = dict(os.environ, VLAB_REPO=scratch)
        r = subprocess.run([sys.executable, '-m', 'vlab.check', prop, '--tier', 'quick', '--no-evidence'], cwd='/verif', env=env, capture_output=True, text=True)
        m = re.search(r'VIOLATION property=\S+ replay=(\S+)', r.stdout)
        if not m:
            print(f'{prop} {mid}: no violation produced (rc={r.returncode})'); continue
        path = m.group(1)
        keep = '/tmp/replay_' + prop + '.json'; shutil.copy(path, keep)
        r1 = subprocess.run([sys.executable, '-m', 'vlab.check', prop, '--replay', keep], cwd='/verif', env=env, capture_output=True, text=True)
        r0 = subprocess.run([sys.executable, '-m', 'vlab.check', prop, '--replay', keep], cwd='/verif', capture_output=True, text=True)
        print(f'{prop} {mid}: replay on mutated rc={r1.returncode} (want 1), on /repo rc={r0.returncode} (want 0)')
    finally:
        shutil.rmtree(scratch, ignore_errors=True)
shutil.rmtree('/verif/replays', ignore_errors=True)
