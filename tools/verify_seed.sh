#!/bin/bash
# usage: tools/verify_seed.sh <ID> <worktree> "<props to run>"
# Confirms an independently written breaking change (tests pass, demo fails with / passes without), then runs
# the listed checks against the worktree (VLAB_REPO) and prints which of them raise a VIOLATION.
ID=$1; WT=$2; PROPS=$3
cd $WT || exit 2
git diff -- labtech > /tmp/seed_$ID.patch
echo "patch lines: $(wc -l < /tmp/seed_$ID.patch)"
(PYTHONPATH=$WT timeout 900 /venv/bin/python -m pytest -q -p no:cacheprovider --timeout=900 > /tmp/seed_$ID.tests 2>&1); echo "tests(with change): $(tail -1 /tmp/seed_$ID.tests)"
(PYTHONPATH=$WT timeout 300 setsid /venv/bin/python demo.py > /tmp/seed_$ID.demo1 2>&1); echo "demo(with change) rc=$? $(grep -m1 -E 'PASS|FAIL' /tmp/seed_$ID.demo1 | cut -c1-150)"
git checkout -q -- labtech
(PYTHONPATH=$WT timeout 300 setsid /venv/bin/python demo.py > /tmp/seed_$ID.demo0 2>&1); echo "demo(without) rc=$? $(grep -m1 -E 'PASS|FAIL' /tmp/seed_$ID.demo0 | cut -c1-150)"
git apply /tmp/seed_$ID.patch
cd /verif
for p in $PROPS; do
  VLAB_REPO=$WT /venv/bin/python -m vlab.check $p --tier ${TIER:-quick} --no-evidence > /tmp/seed_${ID}_$p.out 2>&1; rc=$?
  echo "check $p rc=$rc keys: $(grep -E '^  key=' /tmp/seed_${ID}_$p.out | sed 's/ ::.*//' | sort -u | head -5 | tr '\n' ' ')"
done
rm -rf /verif/replays
